(* Trusted glue: reads one request per line (text sexp), calls the extracted [Model.run],
   prints one answer per line.  No model logic here. *)
open Model

let rec pos_of_int (n : int) : positive =
  if n = 1 then XH else if n land 1 = 0 then XO (pos_of_int (n lsr 1)) else XI (pos_of_int (n lsr 1))
let n_of_int (n : int) : n = if n = 0 then N0 else Npos (pos_of_int n)
let rec int_of_pos (p : positive) : int =
  match p with XH -> 1 | XO q -> 2 * int_of_pos q | XI q -> 2 * int_of_pos q + 1
let int_of_n (x : n) : int = match x with N0 -> 0 | Npos p -> int_of_pos p

let hexval c =
  match c with
  | '0' .. '9' -> Char.code c - 48
  | 'a' .. 'f' -> Char.code c - 87
  | 'A' .. 'F' -> Char.code c - 55
  | _ -> failwith "hex"

(* positive from a big-endian hex string, arbitrary size *)
let z_of_hex (neg : bool) (h : string) : z =
  (* bits little-endian *)
  let bits = ref [] in
  String.iter (fun c -> let v = hexval c in
    bits := (v land 1 = 1) :: (v land 2 = 2) :: (v land 4 = 4) :: (v land 8 = 8) :: !bits) h;
  (* !bits now: lowest nibble first?  we prepended per char, so the LAST char's bits are first: low nibble first, ok *)
  let rec strip l = match l with [] -> [] | b :: r -> (match strip r with [] -> if b then [true] else [] | r' -> b :: r') in
  let l = strip !bits in
  let rec build l = match l with
    | [] -> failwith "zero"
    | [true] -> XH
    | b :: r -> if b then XI (build r) else XO (build r) in
  match l with
  | [] -> Z0
  | _ -> let p = build l in if neg then Zneg p else Zpos p

let hex_of_pos (p : positive) : string =
  let rec bits p acc = match p with XH -> true :: acc | XO q -> bits q (false :: acc) | XI q -> bits q (true :: acc) in
  (* bits p [] gives most-significant first? we cons low bits first then higher -> reversed: MSB first *)
  let l = bits p [] in
  let n = List.length l in
  let pad = (4 - n mod 4) mod 4 in
  let l = List.init pad (fun _ -> false) @ l in
  let buf = Buffer.create 16 in
  let rec go l = match l with
    | a :: b :: c :: d :: r ->
        let v = (if a then 8 else 0) + (if b then 4 else 0) + (if c then 2 else 0) + (if d then 1 else 0) in
        Buffer.add_char buf "0123456789abcdef".[v]; go r
    | [] -> ()
    | _ -> failwith "bits" in
  go l; Buffer.contents buf

let byte_tbl = Array.init 256 (fun i -> n2b (n_of_int i))

let rec parse (s : string) (i : int ref) : sexp =
  while !i < String.length s && s.[!i] = ' ' do incr i done;
  if !i >= String.length s then failwith "eof";
  match s.[!i] with
  | '(' ->
      incr i;
      let items = ref [] in
      let fin = ref false in
      while not !fin do
        while !i < String.length s && s.[!i] = ' ' do incr i done;
        if !i >= String.length s then failwith "eof in list";
        if s.[!i] = ')' then (incr i; fin := true) else items := parse s i :: !items
      done;
      SList (List.rev !items)
  | 'i' ->
      incr i;
      let neg = s.[!i] = '-' in
      incr i;
      let st = !i in
      while !i < String.length s && s.[!i] <> ' ' && s.[!i] <> ')' do incr i done;
      SInt (z_of_hex neg (String.sub s st (!i - st)))
  | 'x' ->
      incr i;
      let st = !i in
      while !i < String.length s && s.[!i] <> ' ' && s.[!i] <> ')' do incr i done;
      let h = String.sub s st (!i - st) in
      let n = String.length h / 2 in
      let rec mk k acc = if k < 0 then acc else mk (k - 1) (byte_tbl.(hexval h.[2 * k] * 16 + hexval h.[2 * k + 1]) :: acc) in
      SBytes (mk (n - 1) [])
  | _ -> failwith "syntax"

let rec print (b : Buffer.t) (s : sexp) : unit =
  match s with
  | SInt Z0 -> Buffer.add_string b "i+0"
  | SInt (Zpos p) -> Buffer.add_string b "i+"; Buffer.add_string b (hex_of_pos p)
  | SInt (Zneg p) -> Buffer.add_string b "i-"; Buffer.add_string b (hex_of_pos p)
  | SBytes l ->
      Buffer.add_char b 'x';
      List.iter (fun by -> let v = int_of_n (b2n by) in
        Buffer.add_char b "0123456789abcdef".[v lsr 4]; Buffer.add_char b "0123456789abcdef".[v land 15]) l
  | SList l ->
      Buffer.add_char b '(';
      List.iteri (fun k x -> if k > 0 then Buffer.add_char b ' '; print b x) l;
      Buffer.add_char b ')'

let () =
  try
    while true do
      let line = input_line stdin in
      let out =
        try
          let req = parse line (ref 0) in
          let b = Buffer.create 256 in
          print b (run req); Buffer.contents b
        with
        | Stack_overflow -> "!stack-overflow"
        | Failure m -> "!bad-request " ^ m
      in
      print_string out; print_newline ()
    done
  with End_of_file -> ()
