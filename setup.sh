#!/bin/bash
# Offline build of the whole framework from files on disk: Generated.v from /repo, all Coq
# files (full .vo build), extraction, OCaml driver.
set -e
cd "$(dirname "$0")"
export PYTHONPATH=/repo/src PYTHONHASHSEED=0 PYTHONDONTWRITEBYTECODE=1
/venv/bin/python tools/translate.py 2> >(grep -v 'conda.cli' >&2)
/venv/bin/python tools/audit.py 2> >(grep -v 'conda.cli' >&2)
cd coq
coq_makefile -f _CoqProject -o Makefile 2>&1 | grep -v 'conda.cli' || true
timeout 7200 make -j16 2>&1 | grep -v 'conda.cli'
cd ..
/venv/bin/python - <<'PY' 2> >(grep -v 'conda.cli' >&2)
import sys
sys.path.insert(0, "tools")
from lib import build
b = build.build(None, extended=True)
print("setup: model/driver build", "ok" if b.ok else "FAILED at " + b.stage, "| extended driver", "ok" if b.driverx_ok else "not built")
if not b.ok:
    print(b.log[-3000:])
    sys.exit(1)
PY
