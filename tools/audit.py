#!/venv/bin/python
"""State audit of the CURRENT /repo source (Python `ast`, fail closed) -> coq/Gen/Sharing.v.

The Gallina model treats the codecs and parsers as FUNCTIONS and a session as a VALUE that owns everything it
mutates.  Those are assumptions about the shape of the Python program, not about its arithmetic; this audit
re-derives them from the source on every run and writes what it finds as Coq data, so that the statement files can
demand `hidden_state_<module> = []` and `choice_lists_fresh = true` as proof obligations:

  per module (asn1, _authentication, _controls, _filter, _messages, _session, schema) the list of places where state
  can survive a call or be shared between objects:
    * memoisation (functools caches, any use of functools at all);
    * `global` statements;
    * a module-level or class-level mutable container that some function mutates (subscript store / delete,
      augmented assignment, mutating method call), directly or through `cls.` / `self.` / `ClassName.`;
    * mutable default arguments;
    * attribute writes that bypass the frozen dataclasses (`object.__setattr__`, `setattr`, `__dict__`) other than
      the one constructor-side use the pinned tree has; function attributes;
    * a method that stores one of its parameters in `self` without copying it (outside `__init__`);
  and the sharing structure of the per-session type registries:
    * every `choices` field of the options dataclasses is a `dataclasses.field(default_factory=<lambda: [..]>)`;
    * `LDAPSession.__init__` builds its `PackingOptions` (and the nested options) by calling constructors;
    * `register_*` only append to `self._packing_options.<...>.choices`.

Anything the audit does not understand counts as a finding (fail closed).  A finding is not a violation by itself:
the check whose proof obligation breaks then looks for a concrete failing input (lib/purity.py probes, buffer
rotation, tee and sibling families) and reports `no-failing-input-found` if there is none."""
from __future__ import annotations

import ast
import os
import sys

REPO = os.environ.get("SANSLDAP_REPO", "/repo")
PKG = os.path.join(REPO, "src", "sansldap")
OUT = os.path.join(os.path.dirname(os.path.abspath(__file__)), "..", "coq", "Gen", "Sharing.v")

MODULES = ["asn1", "_authentication", "_controls", "_filter", "_messages", "_session", "schema"]
MUTATORS = {"append", "extend", "insert", "pop", "remove", "clear", "update", "setdefault", "add", "discard",
            "popitem", "sort", "reverse", "appendleft", "extendleft", "move_to_end", "__setitem__", "__delitem__",
            "difference_update", "intersection_update", "symmetric_difference_update"}
MUTABLE_CALLS = {"dict", "list", "set", "bytearray", "defaultdict", "OrderedDict", "deque", "Counter",
                 "WeakValueDictionary", "WeakKeyDictionary", "WeakSet", "ChainMap"}
# attribute writes that go around a frozen dataclass, present in the pinned tree: (module, function, target)
SETATTR_OK = {("_controls", "unpack_ldap_control", "control"), ("_messages", "_unpack_ldap_message_value", "msg"),
              ("_session", "_send", "msg")}
# parameters stored as they are (immutable values: ints, strs, exception payloads), pinned tree
STORE_OK_FUNCS = {"__init__", "__post_init__"}
# reviewed functions that write process-wide state: LDAPResultCode._missing_ interns the pseudo-member of an unknown
# result code in the enum's value map (setdefault: idempotent, the value depends on the code alone)
PINNED = {("_messages", "LDAPResultCode._missing_"): "d5c5d200131fce1f"}
# classes whose instances are stateful by design (a cursor over a buffer, a session); everywhere else a method that
# writes `self` outside construction is state that survives a call
STATEFUL_CLASSES = {"ASN1Reader", "ASN1Writer", "LDAPSession", "LDAPClient", "LDAPServer"}


def is_mutable_value(v) -> bool:
    if isinstance(v, (ast.List, ast.Dict, ast.Set, ast.ListComp, ast.DictComp, ast.SetComp)):
        return True
    if isinstance(v, ast.Call):
        f = v.func
        name = f.id if isinstance(f, ast.Name) else f.attr if isinstance(f, ast.Attribute) else None
        return name in MUTABLE_CALLS
    return False


def base_name(node):
    """X for X, X[...], X.attr chains rooted at a Name; also returns the attribute path."""
    path = []
    while True:
        if isinstance(node, ast.Subscript):
            node = node.value
        elif isinstance(node, ast.Attribute):
            path.append(node.attr)
            node = node.value
        else:
            break
    if isinstance(node, ast.Name):
        return node.id, list(reversed(path))
    return None, []


class ModuleAudit(ast.NodeVisitor):
    def __init__(self, mod, tree):
        self.mod = mod
        self.tree = tree
        self.findings = []
        self.module_mutables = set()
        self.class_mutables = {}   # class -> set of names
        self.func_stack = []
        self.class_stack = []
        self.collect()

    def note(self, node, what):
        where = ".".join(self.class_stack + self.func_stack) or "<module>"
        if (self.mod, where) in PINNED and self.pinned_ok(where):
            return
        self.findings.append(f"{self.mod}.py:{where}: {what}")

    def pinned_ok(self, where):
        """A function of the pinned tree that is known to touch process-wide state in a benign way (idempotent
        memo) is accepted only as long as it is, node for node, the function that was reviewed."""
        import hashlib

        name = where.split(".")[-1]
        for n in ast.walk(self.tree):
            if isinstance(n, ast.FunctionDef) and n.name == name:
                h = hashlib.sha256(ast.dump(n).encode()).hexdigest()[:16]
                return h == PINNED[(self.mod, where)]
        return False

    def collect(self):
        for st in self.tree.body:
            self.collect_assign(st, self.module_mutables)
            if isinstance(st, ast.ClassDef):
                names = set()
                for s2 in st.body:
                    self.collect_assign(s2, names, in_class=True)
                self.class_mutables[st.name] = names

    def collect_assign(self, st, into, in_class=False):
        if isinstance(st, ast.Assign) and is_mutable_value(st.value):
            for t in st.targets:
                if isinstance(t, ast.Name):
                    into.add(t.id)
        elif isinstance(st, ast.AnnAssign) and st.value is not None and isinstance(st.target, ast.Name):
            if is_mutable_value(st.value):
                into.add(st.target.id)

    # ---- traversal
    def visit_Import(self, node):
        for a in node.names:
            if a.name.split(".")[0] in ("functools", "weakref", "threading", "contextvars"):
                self.note(node, f"imports {a.name}")

    def visit_ImportFrom(self, node):
        if (node.module or "").split(".")[0] in ("functools", "weakref", "threading", "contextvars"):
            self.note(node, f"imports from {node.module}")

    def visit_ClassDef(self, node):
        self.class_stack.append(node.name)
        for d in node.decorator_list:
            self.check_decorator(d)
        self.generic_visit(node)
        self.class_stack.pop()

    def visit_FunctionDef(self, node):
        self.func_stack.append(node.name)
        for d in node.decorator_list:
            self.check_decorator(d)
        for dflt in list(node.args.defaults) + [d for d in node.args.kw_defaults if d is not None]:
            if is_mutable_value(dflt):
                self.note(node, "mutable default argument")
        if self.class_stack and node.name not in STORE_OK_FUNCS:
            params = {a.arg for a in node.args.args + node.args.kwonlyargs} - {"self", "cls"}
            # locals bound directly to a parameter (x = data, x: T = data) are the same object
            grew = True
            while grew:
                grew = False
                for sub in ast.walk(node):
                    tgt = None
                    if isinstance(sub, ast.Assign) and len(sub.targets) == 1:
                        tgt, val = sub.targets[0], sub.value
                    elif isinstance(sub, ast.AnnAssign) and sub.value is not None:
                        tgt, val = sub.target, sub.value
                    if tgt is not None and isinstance(tgt, ast.Name) and isinstance(val, ast.Name) and val.id in params and tgt.id not in params:
                        params.add(tgt.id)
                        grew = True
            for sub in ast.walk(node):
                if isinstance(sub, ast.Assign) and isinstance(sub.value, ast.Name) and sub.value.id in params:
                    for t in sub.targets:
                        b, path = base_name(t)
                        if b == "self" and path:
                            self.note(sub, f"stores its parameter '{sub.value.id}' in self.{'.'.join(path)} without copying it")
        if self.class_stack and self.class_stack[0] not in STATEFUL_CLASSES and node.name not in STORE_OK_FUNCS and len(self.func_stack) == 1:
            for sub in ast.walk(node):
                targets = []
                if isinstance(sub, ast.Assign):
                    targets = sub.targets
                elif isinstance(sub, (ast.AugAssign, ast.AnnAssign)):
                    targets = [sub.target]
                elif isinstance(sub, ast.Delete):
                    targets = sub.targets
                elif isinstance(sub, ast.Call) and isinstance(sub.func, ast.Attribute) and sub.func.attr in MUTATORS:
                    targets = [sub.func.value]
                for t in targets:
                    b, path = base_name(t)
                    if b == "self" and path:
                        self.note(sub, f"writes self.{'.'.join(path)} outside construction")
        self.generic_visit(node)
        self.func_stack.pop()

    visit_AsyncFunctionDef = visit_FunctionDef

    def check_decorator(self, d):
        f = d.func if isinstance(d, ast.Call) else d
        name = f.id if isinstance(f, ast.Name) else f.attr if isinstance(f, ast.Attribute) else "?"
        allowed = {"dataclass", "classmethod", "staticmethod", "property", "abstractmethod", "overload", "unique", "contextmanager"}
        if name not in allowed:
            self.note(d, f"decorator @{name}")

    def visit_Global(self, node):
        self.note(node, "global statement: " + ", ".join(node.names))

    def shared_target(self, node):
        """Is the mutated object a module-level / class-level container?  Returns a description or None."""
        b, path = base_name(node)
        if b is None:
            return None
        if not path and b in self.module_mutables and self.func_stack:
            return f"module-level '{b}'"
        if path:
            cls_names = set(self.class_mutables)
            first = path[0]
            if b in ("cls",) or b in cls_names:
                # anything reached through the class object is shared by every instance and every session
                owner = self.class_stack[-1] if b == "cls" and self.class_stack else b
                return f"class-level '{owner}.{first}'"
            if b == "self" and self.class_stack:
                # self.X where X is a class-level mutable that no __init__ rebinds: shared through the class
                for names in self.class_mutables.values():
                    if first in names and not self.rebound_in_init(first):
                        return f"class-level attribute 'self.{first}'"
        return None

    def rebound_in_init(self, attr):
        for st in ast.walk(self.tree):
            if isinstance(st, ast.FunctionDef) and st.name in ("__init__", "__post_init__"):
                for sub in ast.walk(st):
                    if isinstance(sub, (ast.Assign, ast.AnnAssign)):
                        targets = sub.targets if isinstance(sub, ast.Assign) else [sub.target]
                        for t in targets:
                            if isinstance(t, ast.Attribute) and t.attr == attr and isinstance(t.value, ast.Name) and t.value.id == "self":
                                return True
        return False

    def visit_Assign(self, node):
        for t in node.targets:
            self.check_store(t)
            if isinstance(t, ast.Attribute) and isinstance(t.value, ast.Name) and self.func_stack:
                # function attributes / class attributes assigned at run time
                if t.value.id in self.class_mutables or t.value.id == "cls":
                    self.note(node, f"assigns class attribute {t.value.id}.{t.attr} at run time")
                elif t.value.id not in ("self",) and t.value.id in self.module_functions():
                    self.note(node, f"assigns function attribute {t.value.id}.{t.attr}")
        self.generic_visit(node)

    def module_functions(self):
        return {st.name for st in self.tree.body if isinstance(st, ast.FunctionDef)}

    def visit_AugAssign(self, node):
        self.check_store(node.target, aug=True)
        self.generic_visit(node)

    def visit_Delete(self, node):
        for t in node.targets:
            self.check_store(t)
        self.generic_visit(node)

    def check_store(self, t, aug=False):
        if isinstance(t, ast.Subscript) or aug:
            what = self.shared_target(t)
            if what:
                self.note(t, f"writes into {what}")
        if isinstance(t, ast.Name) and aug and t.id in self.module_mutables and self.func_stack:
            self.note(t, f"augmented assignment to module-level '{t.id}'")

    def visit_Call(self, node):
        f = node.func
        if isinstance(f, ast.Attribute):
            if f.attr in MUTATORS:
                what = self.shared_target(f.value)
                if what:
                    self.note(node, f"calls .{f.attr}() on {what}")
            if f.attr == "__setattr__" or f.attr == "__dict__":
                self.check_setattr(node)
            if f.attr in ("lru_cache", "cache", "cached_property", "singledispatch", "wraps"):
                self.note(node, f"uses {f.attr}")
        elif isinstance(f, ast.Name):
            if f.id == "setattr":
                self.check_setattr(node)
            if f.id in ("lru_cache", "cache", "cached_property"):
                self.note(node, f"uses {f.id}")
            if f.id in ("globals", "vars", "locals", "exec", "eval"):
                self.note(node, f"calls {f.id}()")
        self.generic_visit(node)

    def visit_Attribute(self, node):
        if node.attr == "__dict__":
            self.note(node, "touches __dict__")
        self.generic_visit(node)

    def check_setattr(self, node):
        target = node.args[0] if node.args else None
        tname = target.id if isinstance(target, ast.Name) else "?"
        fn = self.func_stack[-1] if self.func_stack else "<module>"
        if (self.mod, fn, tname) not in SETATTR_OK:
            self.note(node, f"sets an attribute of '{tname}' behind the dataclass")


def audit_registries(trees):
    """-> (fresh: bool, reasons)"""
    why = []
    # (1) every `choices` field uses default_factory with a lambda returning a list display
    seen = 0
    for mod, tree in trees.items():
        for cls in [n for n in tree.body if isinstance(n, ast.ClassDef)]:
            for st in cls.body:
                if isinstance(st, ast.AnnAssign) and isinstance(st.target, ast.Name) and st.target.id == "choices":
                    seen += 1
                    ok = False
                    v = st.value
                    if isinstance(v, ast.Call) and isinstance(v.func, ast.Attribute) and v.func.attr == "field":
                        for kw in v.keywords:
                            if kw.arg == "default_factory" and isinstance(kw.value, ast.Lambda) and isinstance(kw.value.body, ast.List):
                                ok = True
                    if not ok:
                        why.append(f"{mod}.py:{cls.name}.choices is not a default_factory building a new list")
                elif isinstance(st, ast.Assign) and any(isinstance(t, ast.Name) and t.id == "choices" for t in st.targets):
                    seen += 1
                    why.append(f"{mod}.py:{cls.name}.choices is a class attribute")
    if seen != 3:
        why.append(f"expected 3 'choices' fields (controls, filters, credentials), found {seen}")
    # PackingOptions fields holding the nested options must be default_factory too
    nested = 0
    for cls in [n for n in trees["_messages"].body if isinstance(n, ast.ClassDef) and n.name == "PackingOptions"]:
        for st in cls.body:
            if isinstance(st, ast.AnnAssign) and isinstance(st.target, ast.Name) and st.target.id in ("authentication", "control", "filter"):
                nested += 1
                v = st.value
                ok = isinstance(v, ast.Call) and isinstance(v.func, ast.Attribute) and v.func.attr == "field" and any(
                    kw.arg == "default_factory" and isinstance(kw.value, (ast.Name, ast.Lambda)) for kw in v.keywords)
                if not ok:
                    why.append(f"_messages.py:PackingOptions.{st.target.id} is not built per instance")
    if nested != 3:
        why.append(f"expected 3 nested option fields in PackingOptions, found {nested}")
    # (2) LDAPSession.__init__ builds the options by calling constructors
    sess = trees["_session"]
    found_init = False
    for cls in [n for n in sess.body if isinstance(n, ast.ClassDef) and n.name == "LDAPSession"]:
        for fn in [n for n in cls.body if isinstance(n, ast.FunctionDef) and n.name == "__init__"]:
            for sub in ast.walk(fn):
                if isinstance(sub, ast.Assign) and any(isinstance(t, ast.Attribute) and t.attr == "_packing_options" for t in sub.targets):
                    found_init = True
                    v = sub.value
                    if not (isinstance(v, ast.Call) and isinstance(v.func, ast.Name) and v.func.id == "PackingOptions"):
                        why.append("_session.py:LDAPSession.__init__ does not construct PackingOptions itself")
                    else:
                        for kw in v.keywords:
                            if kw.arg in ("authentication", "control", "filter") and not isinstance(kw.value, ast.Call):
                                why.append(f"_session.py:LDAPSession.__init__ passes a shared object as {kw.arg}")
        # (3) register_* only append to self._packing_options.<x>.choices
        for fn in [n for n in cls.body if isinstance(n, ast.FunctionDef) and n.name.startswith("register_")]:
            writes = []
            for sub in ast.walk(fn):
                if isinstance(sub, ast.Call) and isinstance(sub.func, ast.Attribute) and sub.func.attr in MUTATORS:
                    b, path = base_name(sub.func.value)
                    writes.append((b, path, sub.func.attr))
                if isinstance(sub, (ast.Assign, ast.AugAssign)):
                    targets = sub.targets if isinstance(sub, ast.Assign) else [sub.target]
                    for t in targets:
                        if not isinstance(t, ast.Name):
                            b, path = base_name(t)
                            writes.append((b, path, "="))
            good = [w for w in writes if w[0] == "self" and w[1][:1] == ["_packing_options"] and w[1][-1:] == ["choices"] and w[2] == "append"]
            if len(good) != 1 or len(writes) != 1:
                why.append(f"_session.py:LDAPSession.{fn.name} writes {writes}")
    if not found_init:
        why.append("_session.py: no assignment of self._packing_options in LDAPSession.__init__")
    return (not why), why


def run(pkg=PKG):
    trees = {}
    for mod in MODULES:
        path = os.path.join(pkg, mod + ".py")
        with open(path, encoding="utf-8") as fh:
            trees[mod] = ast.parse(fh.read(), filename=path)
    extra = sorted(f[:-3] for f in os.listdir(pkg) if f.endswith(".py") and f[:-3] not in MODULES + ["__init__", "_version"])
    findings = {}
    for mod, tree in trees.items():
        a = ModuleAudit(mod, tree)
        a.visit(tree)
        findings[mod] = sorted(set(a.findings))
    if extra:
        findings["_session"] = findings["_session"] + [f"package has modules the audit does not know: {extra}"]
    fresh, why = audit_registries(trees)
    return findings, fresh, why


FILTER_BER = {"pack", "unpack", "_unpack_filter_attribute_value_assertion"}
FILTER_TEXT = {"from_string", "__str__", "_unpack_filter", "_unpack_complex_filter", "_unpack_simple_filter",
               "_unpack_filter_extensible_header", "_unpack_filter_substrings_value", "_unpack_filter_value",
               "_serialize_filter_value", "FilterSyntaxError"}


def split_filter(findings):
    """_filter.py holds two things: the RFC 4515 text form and the BER form of filters.  A finding is attributed by
    the function it is in; module-level ones and anything unrecognised count for both (fail closed)."""
    text, ber_ = [], []
    for f in findings:
        where = f.split(":")[1].split(".")
        is_ber = any(w in FILTER_BER for w in where) or "FilterOptions" in where
        is_text = any(w in FILTER_TEXT for w in where)
        if is_ber and not is_text:
            ber_.append(f)
        elif is_text and not is_ber:
            text.append(f)
        else:
            text.append(f)
            ber_.append(f)
    return text, ber_


def coq_string(s: str) -> str:
    return '"' + s.replace('"', '""') + '"'


def generate() -> str:
    findings, fresh, why = run()
    out = [
        "(* GENERATED by tools/audit.py from the current /repo working tree -- do not edit. *)",
        "From Coq Require Import List String.",
        "Import ListNotations.",
        "Local Open Scope string_scope.",
        "",
        "(* places where state can survive a call or be shared between objects, per source module *)",
    ]
    for mod in MODULES:
        name = "hidden_state_" + mod.strip("_")
        items = "; ".join(coq_string(x) for x in findings[mod])
        out.append(f"Definition {name} : list string := [{items}].")
    text, ber_ = split_filter(findings["_filter"])
    out.append("(* _filter.py by concern: the RFC 4515 text form / the BER form *)")
    out.append(f"Definition hidden_state_filter_text : list string := [{'; '.join(coq_string(x) for x in text)}].")
    out.append(f"Definition hidden_state_filter_ber : list string := [{'; '.join(coq_string(x) for x in ber_)}].")
    out.append("")
    out.append("(* the per-session type registries are built per instance and written only by their own session *)")
    out.append(f"Definition choice_lists_fresh : bool := {'true' if fresh else 'false'}.")
    items = "; ".join(coq_string(x) for x in why)
    out.append(f"Definition choice_lists_findings : list string := [{items}].")
    return "\n".join(out) + "\n"


def main() -> int:
    if len(sys.argv) > 1 and sys.argv[1] == "--print":
        findings, fresh, why = run(sys.argv[2] if len(sys.argv) > 2 else PKG)
        for mod in MODULES:
            for f in findings[mod]:
                print("FINDING", f)
        print("choice_lists_fresh =", fresh, why)
        return 0
    try:
        text = generate()
    except Exception as e:  # noqa: BLE001
        print(f"audit: FAIL-CLOSED: {type(e).__name__}: {e}", file=sys.stderr)
        return 2
    out = os.path.normpath(OUT)
    old = None
    if os.path.exists(out):
        with open(out) as fh:
            old = fh.read()
    if old != text:
        with open(out, "w") as fh:
            fh.write(text)
        print("audit: Sharing.v updated")
    else:
        print("audit: Sharing.v unchanged")
    return 0


if __name__ == "__main__":
    sys.exit(main())
