from __future__ import annotations

import argparse
import importlib
import os
import sys

HERE = os.path.dirname(os.path.abspath(__file__))
sys.path.insert(0, HERE)
sys.path.insert(0, "/repo/src")


def main() -> int:
    ap = argparse.ArgumentParser()
    ap.add_argument("prop")
    ap.add_argument("--tier", default=os.environ.get("VERIF_TIER", "quick"), choices=["quick", "thorough"])
    ap.add_argument("--replay")
    ap.add_argument("--n", type=int)
    args = ap.parse_args()
    seed = int(os.environ.get("VERIF_SEED", "20260930"))
    from lib import framework

    mod = importlib.import_module(f"props.{args.prop.lower()}")
    prop = mod.PROP
    if args.n:
        prop.quick_n = prop.thorough_n = args.n
    if args.replay:
        return framework.run_replay(prop, args.replay)
    return framework.run_check(prop, args.tier, seed)


if __name__ == "__main__":
    sys.exit(main())
