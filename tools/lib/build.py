"""Build steps shared by all checks: translate /repo -> Generated.v, make the Coq cone,
extract the model, compile the OCaml driver.  Serialised with a lock file."""
from __future__ import annotations

import fcntl
import os
import re
import shutil
import subprocess
import time

VERIF = os.path.normpath(os.path.join(os.path.dirname(os.path.abspath(__file__)), "..", ".."))
COQ = os.path.join(VERIF, "coq")
BUILD = os.path.join(VERIF, "_build")
OCAML = os.path.join(BUILD, "ocaml")
DRIVER = os.path.join(OCAML, "driver")
OCAMLX = os.path.join(BUILD, "ocamlx")
DRIVERX = os.path.join(OCAMLX, "driver")   # extended driver of the schema properties (Extract/DriverSchema.v)
PY = "/venv/bin/python"

FORBIDDEN = re.compile(
    r"\b(Admitted|admit|Axiom|Parameter|Conjecture|Unset\s+Guard|bypass_check|Admit\s+Obligations|"
    r"type-in-type|impredicative-set)\b"
)


class BuildResult:
    def __init__(self):
        self.ok = True
        self.stage = ""          # which stage failed
        self.log = ""
        self.generated_changed = False
        self.assumptions = {}    # theorem -> text printed by Print Assumptions
        self.theorems = []
        self.wall = 0.0
        self.driverx_ok = False  # extended driver available (only attempted when asked for)


def _run(cmd, cwd=None, timeout=1800, env=None):
    e = dict(os.environ)
    e.setdefault("PYTHONHASHSEED", "0")
    e["PYTHONPATH"] = "/repo/src"
    if env:
        e.update(env)
    p = subprocess.run(cmd, cwd=cwd, env=e, capture_output=True, text=True, timeout=timeout)
    out = "\n".join(l for l in (p.stdout + p.stderr).splitlines() if "conda.cli" not in l)
    return p.returncode, out


def coq_files():
    out = []
    with open(os.path.join(COQ, "_CoqProject")) as fh:
        for line in fh:
            line = line.strip()
            if line.endswith(".v"):
                out.append(line)
    return out


def grep_forbidden():
    bad = []
    for f in coq_files():
        path = os.path.join(COQ, f)
        if not os.path.exists(path):
            continue
        text = open(path).read()
        # drop comments (non-nested is enough for our files)
        text = re.sub(r"\(\*.*?\*\)", "", text, flags=re.S)
        for m in FORBIDDEN.finditer(text):
            bad.append(f"{f}: {m.group(0)}")
    return bad


def build_driverx(res: BuildResult):
    """The extended driver: its cone contains proofs about the generated schema patterns, so it is built after and
    apart from the core driver; failure here never takes the core model down."""
    rc, out = _run(["make", "-j16", "Extract/ExtractSchema.vo"], cwd=COQ, timeout=3000)
    res.log += out + "\n"
    if rc != 0:
        return
    os.makedirs(OCAMLX, exist_ok=True)
    need = not os.path.exists(DRIVERX)
    ml = open(os.path.join(COQ, "modelx.ml")).read() + "\nlet run = runx\n"
    mli = open(os.path.join(COQ, "modelx.mli")).read()
    for name, text in (("model.ml", ml), ("model.mli", mli), ("driver.ml", open(os.path.join(VERIF, "ocaml", "driver.ml")).read())):
        dst = os.path.join(OCAMLX, name)
        if not os.path.exists(dst) or open(dst).read() != text:
            open(dst, "w").write(text)
            need = True
    if need:
        rc, out = _run(["ocamlfind", "ocamlopt", "-w", "-a", "model.mli", "model.ml", "driver.ml", "-o", "driver"], cwd=OCAMLX, timeout=900)
        res.log += out + "\n"
        if rc != 0:
            return
    res.driverx_ok = True


def build(prop_file: str | None, clean: bool = False, extended: bool = False) -> BuildResult:
    """prop_file e.g. 'Props/C07' (without .v).  Always (re)builds the extraction + driver too."""
    res = BuildResult()
    t0 = time.time()
    os.makedirs(BUILD, exist_ok=True)
    lock = open(os.path.join(BUILD, ".lock"), "w")
    fcntl.flock(lock, fcntl.LOCK_EX)
    try:
        # 1. translator
        before = None
        gen = os.path.join(COQ, "Gen", "Generated.v")
        if os.path.exists(gen):
            before = open(gen).read()
        rc, out = _run([PY, os.path.join(VERIF, "tools", "translate.py")], cwd=VERIF, timeout=300)
        res.log += out + "\n"
        if rc != 0:
            res.ok = False
            res.stage = "translate"
            return res
        res.generated_changed = before is not None and open(gen).read() != before
        # 1b. state audit of the source (tools/audit.py -> Gen/Sharing.v), same fail-closed contract
        rc, out = _run([PY, os.path.join(VERIF, "tools", "audit.py")], cwd=VERIF, timeout=300)
        res.log += out + "\n"
        if rc != 0:
            res.ok = False
            res.stage = "translate"
            return res
        # 2. makefile
        mk = os.path.join(COQ, "Makefile")
        if not os.path.exists(mk) or os.path.getmtime(mk) < os.path.getmtime(os.path.join(COQ, "_CoqProject")):
            rc, out = _run(["coq_makefile", "-f", "_CoqProject", "-o", "Makefile"], cwd=COQ)
            res.log += out + "\n"
            if rc != 0:
                res.ok = False
                res.stage = "coq_makefile"
                return res
        if clean:
            _run(["make", "clean"], cwd=COQ)
        bad = grep_forbidden()
        if bad:
            res.ok = False
            res.stage = "forbidden-constructs"
            res.log += "\n".join(bad)
            return res
        # 3. extraction first (the model must run even when a proof breaks)
        rc, out = _run(["make", "-j16", "Extract/Extract.vo"], cwd=COQ, timeout=3000)
        res.log += out + "\n"
        if rc != 0:
            res.ok = False
            res.stage = "model-build"
            return res
        os.makedirs(OCAML, exist_ok=True)
        need = not os.path.exists(DRIVER)
        for f in ("model.ml", "model.mli"):
            src = os.path.join(COQ, f)
            dst = os.path.join(OCAML, f)
            if not os.path.exists(dst) or open(src).read() != open(dst).read():
                shutil.copy(src, dst)
                need = True
        dsrc = os.path.join(VERIF, "ocaml", "driver.ml")
        ddst = os.path.join(OCAML, "driver.ml")
        if not os.path.exists(ddst) or open(dsrc).read() != open(ddst).read():
            shutil.copy(dsrc, ddst)
            need = True
        if need:
            rc, out = _run(
                ["ocamlfind", "ocamlopt", "-w", "-a", "model.mli", "model.ml", "driver.ml", "-o", "driver"],
                cwd=OCAML,
                timeout=900,
            )
            res.log += out + "\n"
            if rc != 0:
                res.ok = False
                res.stage = "driver-build"
                return res
        if extended:
            build_driverx(res)
        # 4. the property's proof cone
        if prop_file:
            target = prop_file + ".vo"
            vo = os.path.join(COQ, target)
            # force Print Assumptions output: rebuild the (tiny) property file every time
            if os.path.exists(vo):
                os.remove(vo)
            rc, out = _run(["make", "-j16", target], cwd=COQ, timeout=3000)
            res.log += out + "\n"
            if rc != 0:
                res.ok = False
                res.stage = "proof"
                return res
            parse_assumptions(res, prop_file, out)
        return res
    finally:
        res.wall = time.time() - t0
        fcntl.flock(lock, fcntl.LOCK_UN)
        lock.close()


def parse_assumptions(res: BuildResult, prop_file: str, out: str):
    src = open(os.path.join(COQ, prop_file + ".v")).read()
    src_nc = re.sub(r"\(\*.*?\*\)", "", src, flags=re.S)
    res.theorems = re.findall(r"^\s*(?:Theorem|Corollary)\s+(\w+)", src_nc, flags=re.M)
    printed = re.findall(r"^\s*Print Assumptions\s+(\w+)\.", src_nc, flags=re.M)
    # split coqc output into blocks: "Closed under the global context" or "Axioms:\n..."
    blocks = []
    cur = None
    for line in out.splitlines():
        if line.startswith("Closed under the global context"):
            if cur is not None:
                blocks.append("\n".join(cur))
                cur = None
            blocks.append("Closed under the global context")
        elif line.startswith("Axioms:"):
            if cur is not None:
                blocks.append("\n".join(cur))
            cur = [line]
        elif cur is not None:
            if line.startswith(("COQC", "COQDEP", "make")):
                blocks.append("\n".join(cur))
                cur = None
            else:
                cur.append(line)
    if cur is not None:
        blocks.append("\n".join(cur))
    for name, blk in zip(printed, blocks):
        res.assumptions[name] = blk
    missing = [t for t in res.theorems if t not in res.assumptions]
    if missing or len(blocks) != len(printed):
        res.ok = False
        res.stage = "assumptions"
        res.log += f"\nPrint Assumptions missing for: {missing} (blocks={len(blocks)} printed={len(printed)})"


def coqchk(prop_file: str, timeout=1800):
    mod = "SV." + prop_file.replace("/", ".")
    rc, out = _run(["coqchk", "-silent", "-o", "-Q", ".", "SV", mod], cwd=COQ, timeout=timeout)
    return rc, out
