"""Generic check driver: build -> correspondence (model vs implementation) -> property oracle on
the implementation -> verdict, replay, evidence.  See DESIGN.md sections 3, 5, 6."""
from __future__ import annotations

import hashlib
import json
import os
import random
import signal
import sys
import time
import traceback

from . import build, model, sx

VERIF = build.VERIF
EVIDENCE = os.path.join(VERIF, "evidence")
REPLAYS = os.path.join(VERIF, "replays")
KNOWN = os.path.join(VERIF, "known_findings.json")

COMMON_TRUSTED = [
    "Coq 8.16.1 kernel (coqc; coqchk on the thorough tier); vm_compute used in reflexive steps, native_compute not used",
    "tools/translate.py (regenerates coq/Gen/Generated.v from /repo on every run; CPython ast/re._parser/introspection)",
    "Coq extraction to OCaml with ExtrOcamlBasic only (Extract Inductive for bool, option, unit, list, prod, sumbool, sumor; no Extract Constant of our own; Z/N/positive/nat/byte keep their extracted datatypes), OCaml 4.13.1, ocaml/driver.ml (sexp parser/printer only)",
    "tools/lib + tools/props/*.py: generators, implementation drivers, canonical renderers, oracles",
    "the hand-written Gallina model mirrors the Python control flow; it is tied to the code only by the differential correspondence on the generated cases of this run",
]


class Timeout(Exception):
    pass


def _alarm(signum, frame):
    raise Timeout()


def with_timeout(seconds, fn, *a):
    old = signal.signal(signal.SIGALRM, _alarm)
    signal.setitimer(signal.ITIMER_REAL, seconds)
    try:
        return fn(*a)
    finally:
        signal.setitimer(signal.ITIMER_REAL, 0)
        signal.signal(signal.SIGALRM, old)


# exception classes -> the model's error codes (Base/Sexp.v err_code)
def exc_code(e: BaseException) -> int:
    from sansldap.asn1 import NotEnougData

    if isinstance(e, Timeout):
        return 98
    if isinstance(e, NotEnougData):
        return 3
    if isinstance(e, NotImplementedError):
        return 2
    if isinstance(e, ValueError):  # includes UnicodeDecodeError / UnicodeEncodeError, FilterSyntaxError
        return 1
    if isinstance(e, IndexError):
        return 10
    if isinstance(e, KeyError):
        return 11
    if isinstance(e, TypeError):
        return 12
    if isinstance(e, RecursionError):
        return 13
    return 99


def res_of(fn, render=lambda v: v):
    """Run fn(); render like Base/Sexp.v s_res."""
    try:
        v = fn()
    except Timeout:
        raise
    except BaseException as e:  # noqa: BLE001 - we classify every exception class
        if isinstance(e, (KeyboardInterrupt, SystemExit)):
            raise
        return [1, exc_code(e)]
    return [0, render(v)]


class Prop:
    id = "C00"
    prop_file = None  # e.g. "Props/C07"
    level = "proof"
    case_timeout = 20.0
    quick_n = 2000
    thorough_n = 60000
    rule = ""
    assumptions: list = []
    extra_trusted: list = []

    # --- to override
    def corpus(self):
        return []

    def generate(self, rng: random.Random, n: int, tier: str):
        raise NotImplementedError

    def model_requests(self, case):
        raise NotImplementedError

    def impl_run(self, case):
        """Return a list of answers, one per model request, in the model's rendering."""
        raise NotImplementedError

    def oracle(self, case, impl_answers):
        """Property oracle evaluated on the implementation's observable behaviour only.
        Return None if fine, else a short string saying what is violated."""
        return None

    def normalize_model(self, case, answers):
        """Project the model's answers onto what is compared with the implementation."""
        return answers

    def classify(self, case) -> str:
        return case.get("kind", "?")

    def nontrivial(self, case) -> bool:
        return True

    def shrink(self, case):
        """Yield smaller variants of a failing case."""
        return []

    def finding_key(self, case, what):
        """Classifier used to match entries of known_findings.json."""
        return None

    def extra_checks(self, tier, seed, ctx):
        """Property-specific additional work; return list of (case, what) violations."""
        return []

    def extra_evidence(self, ctx):
        return {}


def canon(v):
    """bytes -> hex so that answers can be compared and stored as JSON."""
    if isinstance(v, (bytes, bytearray, memoryview)):
        return {"x": bytes(v).hex()}
    if isinstance(v, bool):
        return int(v)
    if isinstance(v, (list, tuple)):
        return [canon(x) for x in v]
    if isinstance(v, dict) and not (len(v) == 1 and "x" in v):
        return {k: canon(x) for k, x in v.items() if not (isinstance(k, str) and k.startswith("_"))}
    return v


def uncanon(v):
    if isinstance(v, dict):
        if len(v) == 1 and "x" in v and isinstance(v["x"], str):
            return bytes.fromhex(v["x"])
        return {k: uncanon(x) for k, x in v.items()}
    if isinstance(v, list):
        return [uncanon(x) for x in v]
    return v


def load_known(pid):
    if not os.path.exists(KNOWN):
        return []
    with open(KNOWN) as fh:
        data = json.load(fh)
    return [e for e in data.get("findings", []) if e.get("property") == pid]


def write_replay(pid, payload):
    os.makedirs(REPLAYS, exist_ok=True)
    blob = json.dumps(canon(payload), indent=1, sort_keys=True, default=str)
    h = hashlib.sha1(blob.encode()).hexdigest()[:12]
    path = os.path.join(REPLAYS, f"{pid}-{h}.json")
    with open(path, "w") as fh:
        fh.write(blob)
    return path


def run_impl(prop, case):
    try:
        return with_timeout(prop.case_timeout, prop.impl_run, case)
    except Timeout:
        return ["!timeout"]
    except RecursionError:
        return ["!harness-recursion"]


def evaluate(prop, cases, have_model=True):
    """Returns (impl_answers, model_answers, diffs, oracle_failures)."""
    impl = []
    for c in cases:
        impl.append(canon(run_impl(prop, c)))
    diffs = []
    model_ans = [None] * len(cases)
    if have_model:
        reqs = []
        spans = []
        for c in cases:
            r = prop.model_requests(c)
            spans.append((len(reqs), len(reqs) + len(r)))
            reqs.extend(r)
        try:
            answers = model.run_batch(reqs)
        except Exception as e:  # noqa: BLE001
            answers = None
            diffs.append((None, f"model driver failed: {e}"))
        if answers is not None:
            for i, (a, b) in enumerate(spans):
                model_ans[i] = canon(prop.normalize_model(cases[i], answers[a:b]))
                if model_ans[i] != impl[i]:
                    diffs.append((i, "model and implementation differ"))
    failures = []
    for i, c in enumerate(cases):
        try:
            what = prop.oracle(c, impl[i])
        except Exception as e:  # noqa: BLE001
            what = f"oracle crashed: {type(e).__name__}: {e}"
        if what:
            failures.append((i, what))
    return impl, model_ans, diffs, failures


def shrink_case(prop, case, still_fails, budget=200):
    cur = case
    improved = True
    steps = 0
    while improved and steps < budget:
        improved = False
        for cand in prop.shrink(cur):
            steps += 1
            if steps >= budget:
                break
            try:
                if still_fails(cand):
                    cur = cand
                    improved = True
                    break
            except Exception:  # noqa: BLE001
                continue
    return cur


def shorten(v, limit=400, items=40):
    """Evidence samples are illustrations, not replays: long octet strings, texts and lists are abbreviated (with
    their true size) so that an evidence file stays a few hundred kilobytes at most."""
    if isinstance(v, dict):
        if set(v) == {"x"} and isinstance(v["x"], str) and len(v["x"]) > limit:
            return {"x": v["x"][:limit], "abbreviated_from_octets": len(v["x"]) // 2}
        return {k: shorten(x, limit, items) for k, x in v.items()}
    if isinstance(v, list):
        out = [shorten(x, limit, items) for x in v[:items]]
        if len(v) > items:
            out.append(f"... {len(v) - items} more items")
        return out
    if isinstance(v, str) and len(v) > limit:
        return v[:limit] + f"... ({len(v)} characters)"
    return v


def failing_obligation(b) -> str:
    """Name the Coq statement at which the build stopped (last 'File "./X.v", line N' of the log)."""
    import re

    m = None
    for m in re.finditer(r'File "\./([^"]+\.v)", line (\d+)', b.log or ""):
        pass
    if m is None:
        return ""
    path, line = m.group(1), int(m.group(2))
    name = None
    try:
        with open(os.path.join(build.COQ, path)) as fh:
            for i, text in enumerate(fh, start=1):
                if i > line:
                    break
                mm = re.match(r"\s*(?:Theorem|Lemma|Corollary|Definition|Example|Fixpoint)\s+(\w+)", text)
                if mm:
                    name = mm.group(1)
    except OSError:
        pass
    err = (b.log or "")[m.end():].strip().splitlines()
    first = " ".join(x.strip() for x in err[1:4]) if err else ""
    return f": {path} line {line}" + (f", in {name}" if name else "") + (f" ({first[:200]})" if first else "")


def run_check(prop: Prop, tier: str, seed: int) -> int:
    t0 = time.time()
    sys.setrecursionlimit(max(sys.getrecursionlimit(), 1000))
    pid = prop.id
    known = load_known(pid)
    known_keys = {e["key"]: e for e in known if e.get("status") == "known"}

    b = build.build(prop.prop_file, clean=False, extended=getattr(prop, "extended_driver", False))
    broken = []  # things that no longer check (names)
    have_model = True
    if not b.ok:
        broken.append(f"build stage '{b.stage}' failed" + failing_obligation(b))
        if b.stage in ("translate", "coq_makefile", "forbidden-constructs", "model-build", "driver-build"):
            have_model = os.path.exists(build.DRIVER) and b.stage not in ("model-build", "driver-build")
    axioms = {k: v for k, v in b.assumptions.items() if v != "Closed under the global context"}
    audit_findings = None
    if any("audit" in x for x in broken):
        try:
            sys.path.insert(0, os.path.join(build.VERIF, "tools"))
            import audit

            fnd, fresh, why = audit.run()
            audit_findings = [x for v in fnd.values() for x in v] + list(why)
            broken.append("state audit of the source: " + "; ".join(audit_findings)[:1500])
        except Exception as e:  # noqa: BLE001
            broken.append(f"state audit could not be re-run: {e}")

    chk_out = None
    if tier == "thorough" and b.ok and prop.prop_file:
        rc, chk_out = build.coqchk(prop.prop_file)
        if rc != 0:
            broken.append("coqchk rejected the compiled proof")

    rng = random.Random(seed)
    n = prop.thorough_n if tier == "thorough" else prop.quick_n
    corpus = list(prop.corpus())
    gen = list(prop.generate(rng, n, tier))
    cases = corpus + gen

    impl, model_ans, diffs, failures = evaluate(prop, cases, have_model)
    ctx = {"cases": cases, "impl": impl, "model": model_ans, "build": b, "tier": tier, "seed": seed}
    extra = prop.extra_checks(tier, seed, ctx)

    # ---- classify oracle failures against known findings
    violations = []
    known_hits = {}
    for i, what in failures:
        key = prop.finding_key(cases[i], what)
        if key is not None and key in known_keys:
            known_hits.setdefault(key, (cases[i], what))
        else:
            violations.append((cases[i], what, impl[i], model_ans[i], i))
    for c, what in extra:
        key = prop.finding_key(c, what)
        if key is not None and key in known_keys:
            known_hits.setdefault(key, (c, what))
        else:
            violations.append((c, what, None, None, None))

    # differences on cases that are themselves known findings do not count as a broken tie
    real_diffs = []
    for i, why in diffs:
        if i is None:
            real_diffs.append((i, why))
            continue
        key = prop.finding_key(cases[i], "diff")
        if key is not None and key in known_keys:
            known_hits.setdefault(key, (cases[i], "model/implementation difference on a known finding"))
            continue
        real_diffs.append((i, why))
    if real_diffs:
        broken.append(f"correspondence: {len(real_diffs)} of {len(cases)} cases differ" + "".join(f"; {w}" for i, w in real_diffs if i is None))

    status = 0
    lines = []
    replay_path = None
    if violations:
        case, what, ia, ma, idx = violations[0]

        def still(c):
            a = canon(run_impl(prop, c))
            return bool(prop.oracle(c, a))

        small = case
        preceding = None
        if ia is not None:
            try:
                alone = still(case)
            except Exception:  # noqa: BLE001
                alone = True
            if alone:
                try:
                    small = shrink_case(prop, case, still)
                except Exception:  # noqa: BLE001
                    small = case
            elif idx is not None:
                # the input fails only after earlier calls in the same process (state kept between calls): the replay
                # is the failing input together with the cases that ran before it
                preceding = [canon(x) for x in cases[max(0, idx - 400) : idx]]
        payload = {
            "property": pid,
            "kind": "failing-input",
            "what": what,
            "case": small,
            "original_case": case if small is not case else None,
            "implementation_answer": canon(run_impl(prop, small)) if ia is not None else None,
            "model_answer": ma,
            "how_to_replay": f"cd /verif && ./check {pid} --replay <this file>",
            "broken": broken,
            "seed": seed,
        }
        if preceding is not None:
            payload["history_dependent"] = (
                "the input does not fail when it is the only call made in the process; it failed after the "
                "'preceding_cases' were run (in this order) in the same process"
            )
            payload["preceding_cases"] = preceding
            payload["implementation_answer_in_the_run"] = ia
        replay_path = write_replay(pid, payload)
        lines.append(f"VIOLATION property={pid} replay={replay_path}")
        status = 1
    elif broken:
        first = None
        if real_diffs and real_diffs[0][0] is not None:
            i = real_diffs[0][0]
            first = {"case": cases[i], "implementation_answer": impl[i], "model_answer": model_ans[i]}
        payload = {
            "property": pid,
            "kind": "no-failing-input-found",
            "no_longer_checks": broken,
            "first_difference": first,
            "log_excerpt": b.log[-4000:] if not b.ok else "",
            "theorems": b.theorems,
            "seed": seed,
            "note": "a proof obligation or the model/implementation correspondence broke; the search over "
            f"{len(cases)} cases found no input on which the property itself fails",
        }
        replay_path = write_replay(pid, payload)
        lines.append(f"VIOLATION property={pid} replay={replay_path} no-failing-input-found")
        status = 1
    for key, (c, what) in sorted(known_hits.items()):
        lines.append(f"KNOWN-FINDING: property={pid} {key}: {known_keys[key]['what']}")

    # ---- evidence
    dist = {}
    for c in cases:
        k = prop.classify(c)
        dist[k] = dist.get(k, 0) + 1
    seen = set()
    nontriv = 0
    for c in cases:
        h = json.dumps(canon(c), sort_keys=True, default=str)
        if h in seen:
            continue
        seen.add(h)
        if prop.nontrivial(c):
            nontriv += 1
    samples = []
    step = max(1, len(cases) // 5)
    for i in range(0, len(cases), step):
        samples.append(shorten({"case": canon(cases[i]), "implementation": impl[i], "model": model_ans[i]}))
        if len(samples) >= 5:
            break
    for t in b.theorems[:3]:
        samples.append({"obligation": t, "assumptions": b.assumptions.get(t)})
    obligations = len(b.theorems)
    discharged = len(b.theorems) if b.ok else 0
    cov = {
        "obligations": max(obligations, 1) if prop.prop_file else 0,
        "discharged": discharged,
        "checker_cmd": f"make -C coq {prop.prop_file}.vo (coqc 8.16.1, full .vo build)"
        + ("; coqchk -o -Q coq SV SV." + prop.prop_file.replace("/", ".") if tier == "thorough" else ""),
        "trusted_base": COMMON_TRUSTED + list(prop.extra_trusted),
        "theorems": b.theorems,
        "print_assumptions": b.assumptions,
        "axioms_used": sorted(set(axioms.values())),
        "evaluations": len(cases),
        "distinct_nontrivial": nontriv,
        "rule": prop.rule,
        "samples": samples,
        "traces_validated_against_impl": len(cases) - len([d for d in real_diffs if d[0] is not None]),
        "correspondence_differences": len(real_diffs),
        "oracle_failures": len(failures),
        "input_distribution": dict(sorted(dist.items())),
        "corpus_cases": len(corpus),
        "generated_changed_since_last_run": b.generated_changed,
        "build_wall_s": round(b.wall, 1),
    }
    if chk_out is not None:
        cov["coqchk_output_tail"] = chk_out[-1500:]
    cov.update(prop.extra_evidence(ctx))
    if prop.level != "proof" or not prop.prop_file:
        cov.setdefault("explanation", prop.rule)
    level = prop.level
    try:
        with open(os.path.join(VERIF, "MANIFEST.json")) as fh:
            for chk in json.load(fh).get("checks", []):
                if chk.get("property_id") == pid:
                    level = chk["level_claimed"]["category"]   # single source of truth
    except Exception:  # noqa: BLE001
        pass
    if level != "proof":
        cov.setdefault("explanation", prop.rule)
    ev = {
        "property_id": pid,
        "tier": tier,
        "seed": seed,
        "level": level,
        "coverage": cov,
        "assumptions": list(prop.assumptions),
        "wall_s": round(time.time() - t0, 2),
        "violations": len(violations) + (1 if (broken and not violations) else 0),
        "known_findings_seen": sorted(known_hits),
        "verdict_lines": lines,
    }
    os.makedirs(EVIDENCE, exist_ok=True)
    with open(os.path.join(EVIDENCE, f"{pid}.json"), "w") as fh:
        json.dump(ev, fh, indent=1, default=str)
    for line in lines:
        print(line)
    if status == 0:
        print(
            f"OK property={pid} tier={tier} theorems={discharged}/{obligations} cases={len(cases)} "
            f"diffs=0 oracle_failures={len(failures)} known={len(known_hits)} wall={ev['wall_s']}s"
        )
    return status


def run_replay(prop: Prop, path: str) -> int:
    with open(path) as fh:
        payload = json.load(fh)
    case = payload.get("case") or (payload.get("first_difference") or {}).get("case")
    if case is not None and getattr(prop, "binary_cases", False):
        case = uncanon(case)
    if case is None:
        print("replay file carries no input (no-failing-input-found); see 'no_longer_checks':")
        print(json.dumps(payload.get("no_longer_checks"), indent=1))
        return 1
    b = build.build(None)
    for pc in payload.get("preceding_cases") or []:
        pc = uncanon(pc) if getattr(prop, "binary_cases", False) else pc
        try:
            run_impl(prop, pc)
        except Exception:  # noqa: BLE001
            pass
    ans = canon(run_impl(prop, case))
    what = prop.oracle(case, ans)
    print("case:", json.dumps(canon(case), default=str)[:2000])
    print("implementation:", json.dumps(ans)[:2000])
    if b.ok:
        try:
            m = canon(model.run_batch(prop.model_requests(case)))
            print("model:", json.dumps(m)[:2000])
        except Exception as e:  # noqa: BLE001
            print("model: failed", e)
    if what:
        print(f"VIOLATION property={prop.id} replay={path}")
        print("what:", what)
        return 1
    print("property holds on this input now")
    return 0
