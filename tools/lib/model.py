"""Run requests through the extracted model (ocaml driver)."""
from __future__ import annotations

import subprocess

from . import build, sx


def run_batch(requests, extended=False):
    """requests: list of python sexp values; returns list of python sexp values (or '!..' strings).
    extended=True runs the extended driver of the schema properties (commands 320 and up)."""
    if not requests:
        return []
    driver = build.DRIVERX if extended else build.DRIVER
    text = "\n".join(sx.dumps(r) for r in requests) + "\n"
    p = subprocess.run(
        ["bash", "-c", f"ulimit -s unlimited 2>/dev/null; ulimit -v 12000000 2>/dev/null; exec {driver}"],
        input=text,
        capture_output=True,
        text=True,
        timeout=3600,
    )
    lines = p.stdout.splitlines()
    if len(lines) != len(requests):
        raise RuntimeError(
            f"driver answered {len(lines)} lines for {len(requests)} requests (rc={p.returncode}): {p.stderr[:500]}"
        )
    out = []
    for line in lines:
        if line.startswith("!"):
            out.append(line)
        else:
            out.append(sx.loads(line))
    return out
