"""sansldap objects <-> the neutral list form used by the model (Extract/DriverMsg.v), and seeded
generators of structured message values.

List forms (bytes are real bytes objects; str fields are their UTF-8 octets):
  control  [0 oid crit opt(value)] | [1 crit size cookie opt(raw)] | [2 crit opt(raw)] | [3 crit opt(raw)]
  cred     [0 pw] | [1 mech opt(creds)]
  filter   [0 [fs]] and | [1 [fs]] or | [2 f] not | [3 a v] | [4 a opt(ini) [any] opt(fin)] | [5 a v] ge
           | [6 a v] le | [7 a] present | [8 a v] approx | [9 opt(rule) opt(attr) v dn]
  result   [code matched diag opt([refs])]
  op       [0 version name cred] | [1 result opt(sasl)] | [2] | [3 base scope deref size time types f [attrs]]
           | [4 name [[n [vals]]]] | [5 result] | [6 [uris]] | [7 name opt(value)] | [8 result opt(name) opt(value)]
  msg      [id op [controls]]
opt(x) is [] or [x].
"""
from __future__ import annotations

import random

OID_PAGED = b"1.2.840.113556.1.4.319"
OID_SHOW_DELETED = b"1.2.840.113556.1.4.417"
OID_SHOW_DEACT = b"1.2.840.113556.1.4.2065"
OID_NOTICE = b"1.3.6.1.4.1.1466.20036"


def opt(v):
    return [] if v is None else [v]


def unopt(v):
    return v[0] if v else None


def S(b: bytes) -> str:
    # octets that are not UTF-8 become lone surrogates (PEP 383): a str value every text argument can legally have
    # (argv, environ, os.fsdecode) and that has no UTF-8 form
    return b.decode("utf-8", "surrogateescape")


def B(s: str) -> bytes:
    return s.encode("utf-8")


# ------------------------------------------------------------------ list form -> sansldap objects
def mk_control(c):
    import sansldap

    k = c[0]
    if k == 0:
        return sansldap.LDAPControl(S(c[1]), bool(c[2]), unopt(c[3]))
    if k == 1:
        o = sansldap.PagedResultControl(critical=bool(c[1]), size=c[2], cookie=c[3])
        raw = unopt(c[4])
    elif k == 2:
        o = sansldap.ShowDeletedControl(critical=bool(c[1]))
        raw = unopt(c[2])
    else:
        o = sansldap.ShowDeactivatedLinkControl(critical=bool(c[1]))
        raw = unopt(c[2])
    if raw is not None:
        object.__setattr__(o, "value", raw)  # what a decoded instance exposes
    return o


def mk_cred(c):
    import sansldap

    if c[0] == 0:
        return sansldap.SimpleCredential(password=S(c[1]))
    return sansldap.SaslCredential(mechanism=S(c[1]), credentials=unopt(c[2]))


def mk_filter(f):
    import sansldap

    k = f[0]
    if k == 0:
        return sansldap.FilterAnd(filters=[mk_filter(x) for x in f[1]])
    if k == 1:
        return sansldap.FilterOr(filters=[mk_filter(x) for x in f[1]])
    if k == 2:
        return sansldap.FilterNot(filter=mk_filter(f[1]))
    if k == 3:
        return sansldap.FilterEquality(attribute=S(f[1]), value=f[2])
    if k == 4:
        return sansldap.FilterSubstrings(attribute=S(f[1]), initial=unopt(f[2]), any=list(f[3]), final=unopt(f[4]))
    if k == 5:
        return sansldap.FilterGreaterOrEqual(attribute=S(f[1]), value=f[2])
    if k == 6:
        return sansldap.FilterLessOrEqual(attribute=S(f[1]), value=f[2])
    if k == 7:
        return sansldap.FilterPresent(attribute=S(f[1]))
    if k == 8:
        return sansldap.FilterApproxMatch(attribute=S(f[1]), value=f[2])
    r, a = unopt(f[1]), unopt(f[2])
    return sansldap.FilterExtensibleMatch(
        rule=None if r is None else S(r), attribute=None if a is None else S(a), value=f[3], dn_attributes=bool(f[4])
    )


def mk_result(r):
    import sansldap

    refs = unopt(r[3])
    return sansldap.LDAPResult(
        result_code=sansldap.LDAPResultCode(r[0]),
        matched_dn=S(r[1]),
        diagnostics_message=S(r[2]),
        referrals=None if refs is None else [S(x) for x in refs],
    )


def mk_msg(m):
    import sansldap

    mid, op, cs = m
    kw = dict(message_id=mid, controls=[mk_control(c) for c in cs])
    k = op[0]
    if k == 0:
        return sansldap.BindRequest(version=op[1], name=S(op[2]), authentication=mk_cred(op[3]), **kw)
    if k == 1:
        return sansldap.BindResponse(result=mk_result(op[1]), server_sasl_creds=unopt(op[2]), **kw)
    if k == 2:
        return sansldap.UnbindRequest(**kw)
    if k == 3:
        return sansldap.SearchRequest(
            base_object=S(op[1]),
            scope=sansldap.SearchScope(op[2]),
            deref_aliases=sansldap.DereferencingPolicy(op[3]),
            size_limit=op[4],
            time_limit=op[5],
            types_only=bool(op[6]),
            filter=mk_filter(op[7]),
            attributes=[S(a) for a in op[8]],
            **kw,
        )
    if k == 4:
        return sansldap.SearchResultEntry(
            object_name=S(op[1]),
            attributes=[sansldap.PartialAttribute(name=S(n), values=list(v)) for n, v in op[2]],
            **kw,
        )
    if k == 5:
        return sansldap.SearchResultDone(result=mk_result(op[1]), **kw)
    if k == 6:
        return sansldap.SearchResultReference(uris=[S(u) for u in op[1]], **kw)
    if k == 7:
        return sansldap.ExtendedRequest(name=S(op[1]), value=unopt(op[2]), **kw)
    n = unopt(op[2])
    return sansldap.ExtendedResponse(result=mk_result(op[1]), name=None if n is None else S(n), value=unopt(op[3]), **kw)


# ------------------------------------------------------------------ sansldap objects -> list form
def r_bytes(v):
    """Decoded octet strings must be self-contained bytes objects (C02 aliasing clause)."""
    if v is None:
        return None
    if type(v) is not bytes:
        raise TypeError(f"octet string field is {type(v).__name__}, not bytes")
    return v


def r_control(c):
    import sansldap

    if isinstance(c, sansldap.PagedResultControl):
        return [1, bool(c.critical), int(c.size), r_bytes(c.cookie), opt(r_bytes(c.value))]
    if isinstance(c, sansldap.ShowDeletedControl):
        return [2, bool(c.critical), opt(r_bytes(c.value))]
    if isinstance(c, sansldap.ShowDeactivatedLinkControl):
        return [3, bool(c.critical), opt(r_bytes(c.value))]
    if type(c) is sansldap.LDAPControl:
        return [0, B(c.control_type), bool(c.critical), opt(r_bytes(c.value))]
    raise TypeError(f"unexpected control class {type(c).__name__}")


def r_cred(c):
    import sansldap

    if isinstance(c, sansldap.SimpleCredential):
        return [0, B(c.password)]
    if isinstance(c, sansldap.SaslCredential):
        return [1, B(c.mechanism), opt(r_bytes(c.credentials))]
    raise TypeError(f"unexpected credential class {type(c).__name__}")


def r_filter(f):
    import sansldap

    t = type(f)
    if t is sansldap.FilterAnd:
        return [0, [r_filter(x) for x in f.filters]]
    if t is sansldap.FilterOr:
        return [1, [r_filter(x) for x in f.filters]]
    if t is sansldap.FilterNot:
        return [2, r_filter(f.filter)]
    if t is sansldap.FilterEquality:
        return [3, B(f.attribute), r_bytes(f.value)]
    if t is sansldap.FilterSubstrings:
        return [4, B(f.attribute), opt(r_bytes(f.initial)), [r_bytes(x) for x in f.any], opt(r_bytes(f.final))]
    if t is sansldap.FilterGreaterOrEqual:
        return [5, B(f.attribute), r_bytes(f.value)]
    if t is sansldap.FilterLessOrEqual:
        return [6, B(f.attribute), r_bytes(f.value)]
    if t is sansldap.FilterPresent:
        return [7, B(f.attribute)]
    if t is sansldap.FilterApproxMatch:
        return [8, B(f.attribute), r_bytes(f.value)]
    if t is sansldap.FilterExtensibleMatch:
        return [
            9,
            opt(None if f.rule is None else B(f.rule)),
            opt(None if f.attribute is None else B(f.attribute)),
            r_bytes(f.value),
            bool(f.dn_attributes),
        ]
    raise TypeError(f"unexpected filter class {t.__name__}")


def r_result(r):
    code = r.result_code
    v = code.value if hasattr(code, "value") else int(code)
    if int(code) != int(v):
        # LDAPResultCode is an IntEnum: the field IS an integer; a member whose integer differs from its .value
        # compares equal to a different result code
        v = ["result code reads", int(code), "as an integer but its .value is", int(v)]
        return [v, B(r.matched_dn), B(r.diagnostics_message), opt(None if r.referrals is None else [B(x) for x in r.referrals])]
    return [int(v), B(r.matched_dn), B(r.diagnostics_message), opt(None if r.referrals is None else [B(x) for x in r.referrals])]


def r_msg(m):
    import sansldap

    t = type(m)
    cs = [r_control(c) for c in m.controls]
    if t is sansldap.BindRequest:
        op = [0, int(m.version), B(m.name), r_cred(m.authentication)]
    elif t is sansldap.BindResponse:
        op = [1, r_result(m.result), opt(r_bytes(m.server_sasl_creds))]
    elif t is sansldap.UnbindRequest:
        op = [2]
    elif t is sansldap.SearchRequest:
        op = [
            3,
            B(m.base_object),
            int(m.scope.value),
            int(m.deref_aliases.value),
            int(m.size_limit),
            int(m.time_limit),
            bool(m.types_only),
            r_filter(m.filter),
            [B(a) for a in m.attributes],
        ]
    elif t is sansldap.SearchResultEntry:
        op = [4, B(m.object_name), [[B(a.name), [r_bytes(v) for v in a.values]] for a in m.attributes]]
    elif t is sansldap.SearchResultDone:
        op = [5, r_result(m.result)]
    elif t is sansldap.SearchResultReference:
        op = [6, [B(u) for u in m.uris]]
    elif t is sansldap.ExtendedRequest:
        op = [7, B(m.name), opt(r_bytes(m.value))]
    elif t is sansldap.ExtendedResponse:
        op = [8, r_result(m.result), opt(None if m.name is None else B(m.name)), opt(r_bytes(m.value))]
    else:
        raise TypeError(f"unexpected message class {t.__name__}")
    return [int(m.message_id), op, cs]


# ------------------------------------------------------------------ generators
HOSTILE_TEXT = [
    "",
    "a",
    "cn=admin,dc=example,dc=com",
    "éè",
    "中文",
    "\U0001f600",
    "a\x00b",
    "x" * 127,
    "x" * 128,
    "y" * 255,
    "y" * 256,
    "(objectClass=*)",
    "߿ࠀ￿",
    "LDAP://dc01.example.com/DC=example,DC=com",
    "GC://dc01.example.com",
    "ldaps://h:636/??sub",
    "LdApS://[::1]/o=x?cn?one?(cn=*)",
]
ATTRS = ["cn", "objectClass", "sAMAccountName", "1.2.840.113556.1.4.803", "cn;lang-en", "o-0", "0.9.2342",
         # the same names in other spellings: equal for a directory, different octets on the wire
         "CN", "objectclass", "OBJECTCLASS", "samaccountname", "cn;LANG-EN"]
# RFC 4511 4.5.1.8 attribute selectors with a special meaning; they travel as ordinary strings
SPECIAL_ATTRS = ["1.1", "*", "+"]
# every result code RFC 4511 appendix A names (sessions must treat them alike, save 14 in a bind response)
RFC_RC = [0, 1, 2, 3, 4, 5, 6, 7, 8, 10, 11, 12, 13, 14, 16, 17, 18, 19, 20, 21, 32, 33, 34, 36, 48, 49, 50, 51, 52, 53, 54,
          64, 65, 66, 67, 68, 69, 71, 80]
BOUNDARY_INTS = [0, 1, 2, 3, 127, 128, 255, 256, 32767, 32768, 65535, 65536, 2**31 - 1, 2**31, 2**32, 2**40, 2**63, 2**64 + 1]
NEG_INTS = [-1, -128, -129, -256, -32768, -65536, -(2**31), -(2**31) - 1, -(2**40), -(2**63)]
KNOWN_RC = [0, 1, 2, 3, 4, 10, 14, 32, 49, 53, 80]
UNKNOWN_RC = [9, 15, 22, 35, 81, 118, 127, 128, 255, 256, 4096, 16654, 2**31 - 1]


def g_long_text(rng: random.Random) -> bytes:
    """Text of 1-3 KiB mixing 1-4 byte characters (length limits, truncation at fixed byte offsets)."""
    unit = rng.choice(["\u00e9", "a\u00e9", "\u4e2d", "ab\u4e2d", "\U0001f600", "x\U0001f600", "\u00e9\u4e2d\U0001f600"])
    n = rng.choice([1000, 1023, 1024, 1025, 1500, 3000])
    return B((unit * (n // len(unit.encode()) + 1)))


def g_text(rng: random.Random) -> bytes:
    r = rng.random()
    if r < 0.012:
        return g_long_text(rng)
    if r < 0.55:
        return B(rng.choice(HOSTILE_TEXT[:7] + ATTRS))
    if r < 0.7:
        return B(rng.choice(HOSTILE_TEXT))
    n = rng.randint(0, 12)
    return B("".join(chr(rng.choice([rng.randint(32, 126), rng.randint(0xA0, 0x7FF), rng.randint(0x800, 0xD7FF), rng.randint(0x10000, 0x10FFFF)])) for _ in range(n)))


def g_octets(rng: random.Random, big=False) -> bytes:
    r = rng.random()
    if r < 0.6:
        return bytes(rng.getrandbits(8) for _ in range(rng.randint(0, 10)))
    if r < 0.8:
        return rng.choice([b"", b"\x00", b"\xff", b"*", b"(", b")", b"\\", b"a*b", b"\xc3\x28", b"\x80"])
    n = rng.choice([126, 127, 128, 129, 255, 256, 257] + ([65535, 65536] if big else []))
    return bytes([rng.getrandbits(8)]) * n


def g_int(rng: random.Random, neg=True) -> int:
    r = rng.random()
    if r < 0.5:
        return rng.randint(0, 200)
    if r < 0.85 or not neg:
        return rng.choice(BOUNDARY_INTS) + rng.choice([-1, 0, 0, 1]) if rng.random() < 0.9 else rng.getrandbits(rng.randint(1, 100))
    return rng.choice(NEG_INTS)


def g_control(rng: random.Random, decoded=False):
    r = rng.random()
    crit = rng.random() < 0.5
    if r < 0.45:
        oid = rng.choice([b"1.2.3.4", b"2.16.840.1.113730.3.4.2", b"", B("1.2.é"), b"1.2.840.113556.1.4.801"])
        return [0, oid, crit, opt(g_octets(rng) if rng.random() < 0.6 else None)]
    if r < 0.75:
        return [1, crit, max(0, g_int(rng)) if rng.random() < 0.8 else g_int(rng), g_octets(rng), []]
    if r < 0.88:
        return [2, crit, opt(g_octets(rng)) if decoded and rng.random() < 0.5 else []]
    return [3, crit, opt(g_octets(rng)) if decoded and rng.random() < 0.5 else []]


def g_controls(rng: random.Random, decoded=False):
    r = rng.random()
    if r < 0.5:
        return []
    return [g_control(rng, decoded) for _ in range(rng.choice([1, 1, 2, 3]))]


def g_cred(rng: random.Random):
    if rng.random() < 0.5:
        return [0, g_text(rng)]
    return [1, B(rng.choice(["", "GSSAPI", "EXTERNAL", "GSS-SPNEGO", "DIGEST-MD5"])), opt(g_octets(rng) if rng.random() < 0.7 else None)]


def g_attr(rng: random.Random) -> bytes:
    r = rng.random()
    if r < 0.12:
        return B(rng.choice(SPECIAL_ATTRS))
    return B(rng.choice(ATTRS)) if r < 0.87 else g_text(rng)


def g_filter(rng: random.Random, depth: int):
    k = rng.choice([0, 1, 2, 3, 4, 5, 6, 7, 8, 9] if depth > 0 else [3, 4, 5, 6, 7, 8, 9])
    if k in (0, 1):
        n = rng.choice([0, 1, 1, 2, 2, 3]) if rng.random() < 0.9 else 6
        return [k, [g_filter(rng, depth - 1) for _ in range(n)]]
    if k == 2:
        return [2, g_filter(rng, depth - 1)]
    if k in (3, 5, 6, 8):
        return [k, g_attr(rng), g_octets(rng)]
    if k == 4:
        return [
            4,
            g_attr(rng),
            opt(g_octets(rng) if rng.random() < 0.5 else None),
            [g_octets(rng) for _ in range(rng.choice([0, 0, 1, 2, 3]))],
            opt(g_octets(rng) if rng.random() < 0.5 else None),
        ]
    if k == 7:
        return [7, g_attr(rng)]
    return [
        9,
        opt(g_attr(rng) if rng.random() < 0.6 else None),
        opt(g_attr(rng) if rng.random() < 0.6 else None),
        g_octets(rng),
        rng.random() < 0.4,
    ]


def deep_filter(depth: int):
    f = [7, b"a"]
    for i in range(depth):
        f = [2, f] if i % 3 else [0, [f]]
    return f


def g_result(rng: random.Random):
    r = rng.random()
    code = rng.choice(KNOWN_RC) if r < 0.55 else rng.choice(RFC_RC) if r < 0.7 else rng.choice(UNKNOWN_RC + NEG_INTS[:3])
    r = rng.random()
    refs = None if r < 0.6 else ([] if r < 0.75 else [g_text(rng) for _ in range(rng.randint(1, 3))])
    return [code, g_text(rng), g_text(rng), opt(refs)]


def g_op(rng: random.Random, kind=None, depth=None):
    k = rng.randrange(9) if kind is None else kind
    if k == 0:
        return [0, rng.choice([3, 3, 3, 2, 127, 128, 0, -1, 2**31]), g_text(rng), g_cred(rng)]
    if k == 1:
        return [1, g_result(rng), opt(g_octets(rng) if rng.random() < 0.5 else None)]
    if k == 2:
        return [2]
    if k == 3:
        d = rng.choice([0, 1, 2, 3, 4, 6]) if depth is None else depth
        return [
            3,
            g_text(rng),
            rng.randint(0, 2),
            rng.randint(0, 3),
            g_int(rng),
            g_int(rng),
            rng.random() < 0.5,
            g_filter(rng, d),
            [g_attr(rng) for _ in range(rng.choice([0, 0, 1, 2, 5]))],
        ]
    if k == 4:
        return [
            4,
            g_text(rng),
            [[g_attr(rng), [g_octets(rng, big=rng.random() < 0.02) for _ in range(rng.choice([0, 1, 1, 2, 4]))]] for _ in range(rng.choice([0, 1, 2, 3]))],
        ]
    if k == 5:
        return [5, g_result(rng)]
    if k == 6:
        return [6, [g_text(rng) for _ in range(rng.choice([0, 1, 1, 2, 3]))]]
    if k == 7:
        return [7, rng.choice([b"1.3.6.1.4.1.1466.20037", b"1.2.3", b"", g_text(rng)]), opt(g_octets(rng) if rng.random() < 0.5 else None)]
    name = rng.choice([None, None, b"1.3.6.1.4.1.1466.20037", b"", OID_NOTICE, g_text(rng)])
    return [8, g_result(rng), opt(name), opt(g_octets(rng) if rng.random() < 0.5 else None)]


def g_msg(rng: random.Random, kind=None, depth=None):
    mid = rng.choice([0, 1, 2, 3, 5, 127, 128]) if rng.random() < 0.6 else g_int(rng)
    return [mid, g_op(rng, kind, depth), g_controls(rng)]


def msg_kind(m) -> str:
    return ["BindRequest", "BindResponse", "UnbindRequest", "SearchRequest", "SearchResultEntry", "SearchResultDone", "SearchResultReference", "ExtendedRequest", "ExtendedResponse"][m[1][0]]


def filter_depth(f) -> int:
    if f[0] in (0, 1):
        return 1 + max([filter_depth(x) for x in f[1]] or [0])
    if f[0] == 2:
        return 1 + filter_depth(f[1])
    return 1


def packing_options():
    from sansldap._messages import PackingOptions

    return PackingOptions()


def pack(m) -> bytes:
    return mk_msg(m).pack(packing_options())
