"""Caller interference: what an application may legally do with a value a library function returned.

A parser is only a function of its input if a second call is unaffected by what the caller did to the first result.
`scramble(obj)` alters, in place, every list / dict / bytearray reachable from a returned object (through dataclass
fields and containers); `twice(parse, render)` parses, renders, scrambles, parses again and reports whether the second
result renders the same.  A parser that memoises mutable results, or hands out pieces of shared state, fails this on
every input - no special value is needed."""
from __future__ import annotations

import dataclasses


def scramble(obj, depth=0, seen=None):
    seen = set() if seen is None else seen
    if id(obj) in seen or depth > 40:
        return
    seen.add(id(obj))
    if isinstance(obj, list):
        for x in list(obj):
            scramble(x, depth + 1, seen)
        if obj:
            obj.append(obj[0])
            obj.reverse()
        else:
            obj.append(None)
    elif isinstance(obj, dict):
        for x in list(obj.values()):
            scramble(x, depth + 1, seen)
        obj["X-scrambled"] = ["1"]
    elif isinstance(obj, bytearray):
        obj.extend(b"\xAA")
    elif dataclasses.is_dataclass(obj) and not isinstance(obj, type):
        for f in dataclasses.fields(obj):
            try:
                scramble(getattr(obj, f.name), depth + 1, seen)
            except AttributeError:
                pass


class Impure(Exception):
    """Raised (inside the harness) when a second call is affected by interference with the first result."""


def twice(parse, render):
    """parse() -> object; render(object) -> comparable value.  Returns the first rendering; raises Impure when the
    second call, made after the first result was scrambled, renders differently or returns the scrambled object."""
    a = parse()
    ra = render(a)
    scramble(a)
    b = parse()
    if b is a:
        raise Impure("the second call returned the very object the caller had modified")
    rb = render(b)
    if rb != ra:
        raise Impure("the second call was affected by the caller's changes to the first result")
    return ra
