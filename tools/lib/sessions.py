"""Shared machinery for the session properties (C08, C09, C10, C12, and the receive-side ones):
history generator, implementation runner (public API only + deepcopy probes), trace oracles."""
from __future__ import annotations

import copy
import random

from lib import msgs
from lib.framework import Timeout, canon, exc_code
from oracle import ber

CLIENT, SERVER = 0, 1
ST = {"BEFORE_OPEN": 0, "BINDING": 1, "OPENED": 2, "CLOSED": 3}
RC_SASL = 14

# call forms (Extract/DriverMsg.v g_call)
C_BIND, C_EXT, C_SEARCH, S_BINDRESP, S_EXTRESP, S_ENTRY, S_REF, S_DONE, UNBIND, RECV, DRAIN = range(11)
SEND_CALLS = {C_BIND, C_EXT, C_SEARCH, S_BINDRESP, S_EXTRESP, S_ENTRY, S_REF, S_DONE, UNBIND}


# ------------------------------------------------------------------ implementation runner
def classify_response(resp):
    """ProtocolError.response -> 0 none / 1 unbind / 2 notice of disconnection / 3 anything else."""
    if resp is None:
        return 0
    try:
        t = ber.parse_tree(bytes(resp))
        if len(t) != 1 or t[0][:3] != (0, True, 16):
            return 3
        kids = t[0][3]
        if len(kids) != 2 or kids[0][:3] != (0, False, 2) or ber.dec_int(kids[0][3]) != 0:
            return 3
        op = kids[1]
        if op[0] == 1 and op[2] == 2:
            body = op[3]
            return 1 if (body == b"" or body == []) else 3
        if op[:3] == (1, True, 24):
            b = op[3]
            if len(b) != 4:
                return 3
            if b[0][:3] != (0, False, 10) or ber.dec_int(b[0][3]) != 2:
                return 3
            if b[1][:3] != (0, False, 4) or b[1][3] != b"":
                return 3
            if b[2][:3] != (0, False, 4):
                return 3
            b[2][3].decode("utf-8")
            if b[3][:3] != (2, False, 10) or b[3][3] != msgs.OID_NOTICE:
                return 3
            return 2
        return 3
    except Exception:  # noqa: BLE001
        return 3


def new_session(role):
    import sansldap

    return sansldap.LDAPClient() if role == CLIENT else sansldap.LDAPServer()


def _variant(c) -> int:
    """Which of the equivalent documented call forms to use: decided by the call's own data (exact replays)."""
    return len(repr(c)) % 2


def _enum(E, x):
    try:
        return E(x)
    except ValueError:
        return x


def _ext_name(name: str, variant: int):
    """The ExtendedOperations member instead of its OID string (it is a str subclass) in variant 1."""
    import sansldap

    if variant == 1:
        for m in sansldap.ExtendedOperations:
            if m.value == name:
                return m
    return name


def _kw(pairs, variant):
    """Keyword arguments; in variant 1 every argument equal to its documented default is left out."""
    return {k: v for k, (v, dflt) in pairs.items() if not (variant == 1 and v == dflt and type(v) is type(dflt))}


def do_call(s, c):
    import sansldap

    k = c[0]
    v = _variant(c)
    ctl = lambda x: ([msgs.mk_control(y) for y in x] if (x or v == 0) else None)  # noqa: E731  controls=None == []
    if k == C_BIND:
        dn, cred = msgs.S(c[1]), c[2]
        if v == 1 and cred[0] == 0:
            # bind_simple(dn, password): None / "" mean anonymous resp. unauthenticated
            return [0, s.bind_simple(dn or None, msgs.S(cred[1]) or None, controls=ctl(c[3]))]
        if v == 1 and cred[0] == 1:
            return [0, s.bind_sasl(msgs.S(cred[1]), dn or None, msgs.unopt(cred[2]), controls=ctl(c[3]))]
        return [0, s.bind(dn, msgs.mk_cred(cred), controls=ctl(c[3]))]
    if k == C_EXT:
        kw = _kw({"value": (msgs.unopt(c[2]), None), "controls": (ctl(c[3]), None)}, v)
        return [0, s.extended_request(_ext_name(msgs.S(c[1]), v), **kw)]
    if k == C_SEARCH:
        base = msgs.S(c[1])
        flt = msgs.mk_filter(c[7])
        kw = _kw({
            "base_object": (base if (base or v == 0) else None, None),
            "scope": (c[2] if v == 0 else _enum(sansldap.SearchScope, c[2]), sansldap.SearchScope.SUBTREE),
            "dereferencing_policy": (c[3] if v == 0 else _enum(sansldap.DereferencingPolicy, c[3]), sansldap.DereferencingPolicy.NEVER),
            "size_limit": (c[4], 0),
            "time_limit": (c[5], 0),
            "types_only": (bool(c[6]), False),
            "filter": (None if (v == 1 and list(c[7]) == [7, b"objectClass"]) else flt, None),
            "attributes": ([msgs.S(a) for a in c[8]] if (c[8] or v == 0) else None, None),
            "controls": (ctl(c[9]), None),
        }, v)
        return [0, s.search_request(**kw)]
    SUCCESS = sansldap.LDAPResultCode.SUCCESS
    txt = lambda b: (msgs.S(b) if (b or v == 0) else None)  # noqa: E731  matched_dn / diagnostics None == ""
    if k == S_BINDRESP:
        kw = _kw({"sasl_creds": (msgs.unopt(c[2]), None), "result_code": (sansldap.LDAPResultCode(c[3]), SUCCESS),
                  "matched_dn": (txt(c[4]), None), "diagnostics_message": (txt(c[5]), None), "controls": (ctl(c[6]), None)}, v)
        return [0, s.bind_response(c[1], **kw)]
    if k == S_EXTRESP:
        n = msgs.unopt(c[2])
        kw = _kw({"name": (None if n is None else _ext_name(msgs.S(n), v), None), "value": (msgs.unopt(c[3]), None),
                  "result_code": (sansldap.LDAPResultCode(c[4]), SUCCESS), "matched_dn": (txt(c[5]), None),
                  "diagnostics_message": (txt(c[6]), None), "controls": (ctl(c[7]), None)}, v)
        return [0, s.extended_response(c[1], **kw)]
    if k == S_ENTRY:
        return [
            0,
            s.search_result_entry(
                c[1],
                msgs.S(c[2]),
                [sansldap.PartialAttribute(name=msgs.S(n), values=list(vals)) for n, vals in c[3]],
                controls=ctl(c[4]),
            ),
        ]
    if k == S_REF:
        return [0, s.search_result_reference(c[1], [msgs.S(u) for u in c[2]], controls=ctl(c[3]))]
    if k == S_DONE:
        kw = _kw({"result_code": (sansldap.LDAPResultCode(c[2]), SUCCESS), "matched_dn": (txt(c[3]), None),
                  "diagnostics_message": (txt(c[4]), None), "controls": (ctl(c[5]), None)}, v)
        return [0, s.search_result_done(c[1], **kw)]
    if k == UNBIND:
        r = s.unbind()
        return [1] if r is None else [6, 99]
    if k == RECV:
        # the three documented input types in turn (chosen by the data, so a replay is exact); a caller-owned
        # bytearray is overwritten as soon as receive() returns, the way a recv_into loop reuses its buffer:
        # the session must have copied what it keeps, and what it returned must not alias the input
        data = bytes(c[1])
        mode = (len(data) + (data[-1] if data else 0)) % 3
        buf = bytearray(data)
        arg = data if mode == 0 else buf if mode == 1 else memoryview(buf)
        try:
            ms = s.receive(arg)
        finally:
            for i in range(len(buf)):
                buf[i] = 0xAA
        out = [3, [msgs.r_msg(m) for m in ms]]
        if mode == 2:
            arg.release()
        del buf[:]
        return out
    if k == DRAIN:
        a = msgs.unopt(c[1])
        d = s.data_to_send() if a is None else s.data_to_send(a)
        if type(d) is not bytes:
            return [6, 12]
        return [2, d]
    raise KeyError(k)


def outcome_of(s, c):
    import sansldap

    try:
        return do_call(s, c)
    except Timeout:
        raise
    except sansldap.ProtocolError as e:
        return [5, classify_response(getattr(e, "response", None))]
    except sansldap.LDAPError:
        return [4]
    except BaseException as e:  # noqa: BLE001
        if isinstance(e, (KeyboardInterrupt, SystemExit)):
            raise
        return [6, exc_code(e)]


def probe(s):
    """Public observation without disturbing the session: state, and the bytes a clone would drain."""
    clone = copy.deepcopy(s)
    return [ST[s.state.name], clone.data_to_send()]


def run_history(role, calls, unenc=()):
    s = new_session(role)
    trace = []
    for i, c in enumerate(calls):
        o = outcome_of(s, c)
        trace.append([o, probe(s)])
    return trace


def unenc_indices(c):
    return [i for i, m in enumerate(c.get("meta") or []) if m == "unenc"]


# ------------------------------------------------------------------ history generator
class Shadow:
    """Generator-side guess of the protocol bookkeeping (only steers generation)."""

    def __init__(self, role):
        self.role = role
        self.next_id = 1
        self.open = {}  # id -> 'search' | 'other' | 'bind'
        self.retired = []
        self.closed = False


def pick_id(rng, sh: Shadow):
    r = rng.random()
    if sh.open and r < 0.6:
        return rng.choice(sorted(sh.open))
    if sh.retired and r < 0.8:
        return rng.choice(sh.retired)
    return rng.choice([0, sh.next_id, sh.next_id + 1, 7, -1, 2**31])


def gen_client_call(rng, sh):
    r = rng.random()
    cs = msgs.g_controls(rng) if rng.random() < 0.2 else []
    if r < 0.3:
        return [C_BIND, msgs.g_text(rng), msgs.g_cred(rng), cs], "bind"
    if r < 0.6:
        return [C_EXT, rng.choice([b"1.3.6.1.4.1.1466.20037", b"1.2.3", b"1.2.3", msgs.OID_NOTICE]), msgs.opt(None if rng.random() < 0.6 else msgs.g_octets(rng)), cs], "other"
    op = msgs.g_op(rng, 3, depth=rng.choice([0, 1, 2]))
    return [C_SEARCH] + op[1:] + [cs], "search"


def gen_response_msg(rng, sh, mid=None):
    """A server->client message in list form."""
    mid = pick_id(rng, sh) if mid is None else mid
    kind = sh.open.get(mid)
    r = rng.random()
    if kind == "search" and r < 0.75:
        k = rng.choice([4, 4, 6, 5])
    elif kind == "bind" and r < 0.75:
        k = 1
    elif kind == "other" and r < 0.6:
        k = 8
    else:
        k = rng.choice([1, 4, 5, 6, 8, 8, 0, 3, 7, 2])
    op = msgs.g_op(rng, k, depth=1)
    if k == 1 and rng.random() < 0.35:
        op[1][0] = RC_SASL
    if k == 8 and rng.random() < 0.12:
        op[2] = [msgs.OID_NOTICE]
    cs = msgs.g_controls(rng) if rng.random() < 0.15 else []
    return [mid, op, cs]


def gen_request_msg(rng, sh):
    r = rng.random()
    if r < 0.7:
        mid = sh.next_id
    else:
        mid = pick_id(rng, sh)
    k = rng.choice([0, 0, 3, 3, 7, 7, 7, 2, 1, 8, 5])
    op = msgs.g_op(rng, k, depth=1)
    cs = msgs.g_controls(rng) if rng.random() < 0.15 else []
    return [mid, op, cs]


def corrupt(rng, data: bytes) -> bytes:
    if not data:
        return b"\x30"
    b = bytearray(data)
    r = rng.random()
    i = rng.randrange(len(b))
    if r < 0.4:
        b[i] = rng.getrandbits(8)
    elif r < 0.6:
        b[i] ^= 1 << rng.randrange(8)
    elif r < 0.75:
        del b[i]
    elif r < 0.9:
        b.insert(i, rng.getrandbits(8))
    else:
        b = b[:i]
    return bytes(b)


def gen_server_call(rng, sh):
    mid = pick_id(rng, sh)
    cs = msgs.g_controls(rng) if rng.random() < 0.15 else []
    if rng.random() < 0.07:
        # the shape of an unsolicited notification (RFC 4511 4.4): id 0, the notice name, any result code
        code = rng.choice([2, 8, 52, 80, 0, 1] + msgs.RFC_RC)
        name = msgs.OID_NOTICE if rng.random() < 0.8 else b"1.2.3"
        return [S_EXTRESP, rng.choice([0, 0, 0, mid]), msgs.opt(name), msgs.opt(None), code, msgs.g_text(rng), msgs.g_text(rng), cs]
    kind = sh.open.get(mid)
    r = rng.random()
    if kind is not None and r < 0.06:
        # the server announces the disconnection in answer to an outstanding request: by OID string (even variant)
        # or by enum member (odd variant, see _ext_name)
        return [S_EXTRESP, mid, msgs.opt(msgs.OID_NOTICE), msgs.opt(None), rng.choice([52, 2, 8, 80]), b"", msgs.g_text(rng), cs]
    if kind == "search" and r < 0.7:
        k = rng.choice([S_ENTRY, S_ENTRY, S_REF, S_DONE])
    elif kind == "bind" and r < 0.7:
        k = S_BINDRESP
    else:
        k = rng.choice([S_BINDRESP, S_EXTRESP, S_EXTRESP, S_ENTRY, S_REF, S_DONE])
    code = rng.choice([0, 0, 0, 49, RC_SASL, 118]) if rng.random() < 0.7 else rng.choice(msgs.RFC_RC)
    if k == S_BINDRESP:
        return [k, mid, msgs.opt(None if rng.random() < 0.7 else msgs.g_octets(rng)), code, msgs.g_text(rng), msgs.g_text(rng), cs]
    if k == S_EXTRESP:
        name = rng.choice([None, None, b"1.2.3", msgs.OID_NOTICE if rng.random() < 0.5 else None])
        return [k, mid, msgs.opt(name), msgs.opt(None if rng.random() < 0.7 else msgs.g_octets(rng)), code, msgs.g_text(rng), msgs.g_text(rng), cs]
    if k == S_ENTRY:
        op = msgs.g_op(rng, 4)
        return [k, mid, op[1], op[2], cs]
    if k == S_REF:
        op = msgs.g_op(rng, 6)
        return [k, mid, op[1], cs]
    return [k, mid, code, msgs.g_text(rng), msgs.g_text(rng), cs]


UNENCODABLE = [b"\xff", b"caf\xe9", b"x\xed\xa0\x80y", b"\x80"]
UNENC_FIELD = {C_BIND: 1, C_EXT: 1, C_SEARCH: 1, S_BINDRESP: 5, S_EXTRESP: 6, S_ENTRY: 2, S_DONE: 4}
REFUSED_UNENC = ["refused: a text argument has no UTF-8 form"]


def gen_history(rng: random.Random, role=None, length=None, malformed=0.08, chunked=0.25, unenc=0.0):
    """Returns {"role", "calls", "meta"}; meta[i] for a RECV call = list of [id, opkind, rc, notice] of the
    well-formed messages the data consists of, or None when the data is not a clean sequence."""
    role = rng.randint(0, 1) if role is None else role
    if length is None:
        r0 = rng.random()
        if r0 < 0.004:
            return gen_long_history(rng, role)
        if r0 < 0.012:
            return gen_big_history(rng, role)
    sh = Shadow(role)
    n = rng.randint(1, 14) if length is None else length
    calls, meta = [], []
    if length is None and rng.random() < 0.06:
        # a multi-step SASL bind in progress (BindResponse 14 exchanged), then ordinary traffic
        req = [1, [0, 3, b"", [1, b"GSSAPI", [b"tok"]]], []]
        resp = [1, [1, [RC_SASL, b"", b"", []], [b"srv"]], []]
        if role == CLIENT:
            calls += [[C_BIND, b"", [1, b"GSSAPI", [b"tok"]], []], [RECV, msgs.pack(resp)]]
            meta += [None, _meta_of([resp])]
        else:
            calls += [[RECV, msgs.pack(req)], [S_BINDRESP, 1, [b"srv"], RC_SASL, b"", b"", []]]
            meta += [_meta_of([req]), None]
            sh.retired.append(1)
        sh.next_id = 2
        n += 2
    pending_tail = b""  # bytes of a message cut by chunking, to be delivered by the next RECV
    synced = True       # False once the byte stream delivered so far is no longer a clean message sequence
    while len(calls) < n:
        r = rng.random()
        if pending_tail and r < 0.8:
            calls.append([RECV, pending_tail])
            meta.append(None)
            pending_tail = b""
            synced = True
            continue
        if r < 0.12:
            a = rng.choice([None, None, 0, 1, 2, 5, 16, 1000, -1, -3, 65536, 70000])
            calls.append([DRAIN, msgs.opt(a)])
            meta.append(None)
        elif r < 0.17:
            calls.append([UNBIND])
            meta.append(None)
        elif r < 0.55:
            if unenc and rng.random() < unenc:
                # a well-typed call one of whose str arguments cannot be encoded: it must be refused and leave no
                # trace (no id consumed or recorded, no state change, nothing queued)
                c = gen_client_call(rng, sh)[0] if role == CLIENT else gen_server_call(rng, sh)
                if c[0] in UNENC_FIELD:
                    c[UNENC_FIELD[c[0]]] = rng.choice(UNENCODABLE)
                    calls.append(c)
                    meta.append("unenc")
                    continue
            if role == CLIENT:
                c, kind = gen_client_call(rng, sh)
                calls.append(c)
                meta.append(None)
                # optimistic shadow update
                if not (kind == "bind" and sh.open):
                    sh.open[sh.next_id] = kind
                    sh.next_id += 1
            else:
                c = gen_server_call(rng, sh)
                calls.append(c)
                meta.append(None)
                mid = c[1]
                if mid in sh.open and c[0] not in (S_ENTRY, S_REF):
                    del sh.open[mid]
                    sh.retired.append(mid)
        else:
            k = rng.choice([1, 1, 1, 2, 3])
            searches = [i for i, kd in sh.open.items() if kd == "search"]
            if role == CLIENT and sh.open and rng.random() < 0.15:
                # a burst for ONE operation in ONE delivery: entries / references around (and after) the done of a
                # search, or entries / references / final responses for an id that is not a search at all
                sid = rng.choice(searches) if searches and rng.random() < 0.7 else rng.choice(sorted(sh.open))
                kinds = [4, 4, 6, 5] if sh.open[sid] == "search" else [4, 4, 6, 6, 8, 5]
                ms = [[sid, msgs.g_op(rng, rng.choice(kinds), depth=0), []] for _ in range(rng.randint(2, 5))]
            else:
                ms = [gen_response_msg(rng, sh) if role == CLIENT else gen_request_msg(rng, sh) for _ in range(k)]
            for m in ms:
                mid, op = m[0], m[1]
                if role == CLIENT:
                    if mid in sh.open and not (sh.open[mid] == "search" and op[0] in (4, 6)):
                        del sh.open[mid]
                        sh.retired.append(mid)
                else:
                    if op[0] in (0, 3, 7):
                        sh.open[mid] = {0: "bind", 3: "search", 7: "other"}[op[0]]
                        sh.next_id = max(sh.next_id, mid + 1) if isinstance(mid, int) and mid < 2**20 else sh.next_id
            data = b"".join(msgs.pack(m) for m in ms)
            mt = _meta_of(ms)
            rr = rng.random()
            if pending_tail:
                # the stream is already desynchronised by an undelivered tail
                pending_tail = b""
                synced = False
            if not synced:
                mt = None
                rr = 1.0
            if rr < malformed:
                data = corrupt(rng, data)
                mt = None
                synced = False
            elif rr < malformed + chunked and len(data) > 1:
                cut = rng.randrange(1, len(data))
                pending_tail = data[cut:]
                data = data[:cut]
                mt = None
                synced = False
            elif rr < malformed + chunked + 0.03:
                data = bytes(rng.getrandbits(8) for _ in range(rng.randint(0, 12)))
                mt = None
                synced = False
            calls.append([RECV, data])
            meta.append(mt)
    return {"role": role, "calls": calls, "meta": meta}


def _meta_of(ms):
    return [[m[0], m[1][0], (m[1][1][0] if m[1][0] in (1, 5, 8) else None), bool(m[1][0] == 8 and m[1][2] == [msgs.OID_NOTICE])] for m in ms]


def _ok_result(code=0):
    return [code, b"", b"", []]


def gen_long_history(rng, role, cycles=None):
    """Hundreds of complete request/response cycles (ids well past 256, where small-int identity and one-byte
    encodings stop), then a replay of ids that were retired long ago, then ordinary traffic."""
    n = rng.randint(257, 330) if cycles is None else cycles
    calls, meta = [], []
    done_ids = []
    i = 1
    while i <= n:
        b = min(rng.choice([1, 1, 2, 3]), n - i + 1)
        ids = list(range(i, i + b))
        kinds = [rng.choice(["other", "other", "search"]) for _ in ids]
        if role == CLIENT:
            for k in kinds:
                if k == "search":
                    calls.append([C_SEARCH, b"", 2, 0, 0, 0, 0, [7, b"objectClass"], [], []])
                else:
                    calls.append([C_EXT, b"1.2.3", [], []])
                meta.append(None)
            ms = []
            for mid, k in zip(ids, kinds):
                if k == "search":
                    if rng.random() < 0.5:
                        ms.append([mid, [4, b"cn=x", [[b"cn", [b"x"]]]], []])
                    ms.append([mid, [5, _ok_result(4096 + mid)], []])
                else:
                    # hundreds of DISTINCT result codes the enum does not list (process-wide pseudo-members)
                    ms.append([mid, [8, _ok_result(20000 + mid), [], []], []])
            if rng.random() < 0.3:
                rng.shuffle(ms)
                ms = [m for m in ms if m[1][0] != 5] + [m for m in ms if m[1][0] == 5]
            calls.append([RECV, b"".join(msgs.pack(m) for m in ms)])
            meta.append(_meta_of(ms))
        else:
            ms = []
            for mid, k in zip(ids, kinds):
                if k == "search":
                    ms.append([mid, [3, b"", 2, 0, 0, 0, False, [7, b"objectClass"], []], []])
                else:
                    ms.append([mid, [7, b"1.2.3", []], []])
            calls.append([RECV, b"".join(msgs.pack(m) for m in ms)])
            meta.append(_meta_of(ms))
            for mid, k in zip(ids, kinds):
                if k == "search":
                    if rng.random() < 0.5:
                        calls.append([S_ENTRY, mid, b"cn=x", [[b"cn", [b"x"]]], []])
                        meta.append(None)
                    calls.append([S_DONE, mid, 4096 + mid, b"", b"", []])
                else:
                    calls.append([S_EXTRESP, mid, [], [], 20000 + mid, b"", b"", []])
                meta.append(None)
            if rng.random() < 0.2:
                calls.append([DRAIN, msgs.opt(rng.choice([None, 7, 100]))])
                meta.append(None)
        done_ids.extend(ids)
        i += b
    # replays of retired ids
    for _ in range(rng.choice([1, 2, 3])):
        mid = rng.choice([d for d in done_ids if d >= 257] or done_ids) if rng.random() < 0.75 else rng.choice(done_ids)
        if role == CLIENT:
            m = [mid, rng.choice([[8, _ok_result(), [], []], [5, _ok_result()], [4, b"cn=x", []]]), []]
            calls.append([RECV, msgs.pack(m)])
            meta.append(_meta_of([m]))
        else:
            calls.append(rng.choice([[S_EXTRESP, mid, [], [], 0, b"", b"", []], [S_DONE, mid, 0, b"", b"", []], [S_ENTRY, mid, b"cn=x", [], []]]))
            meta.append(None)
    # one more ordinary cycle and a drain: the session must still be consistent
    nid = n + 1
    if role == CLIENT:
        calls.append([C_EXT, b"1.2.3", [], []])
        meta.append(None)
        m = [nid, [8, _ok_result(118), [], []], []]
        calls.append([RECV, msgs.pack(m)])
        meta.append(_meta_of([m]))
    else:
        m = [nid, [7, b"1.2.3", []], []]
        calls.append([RECV, msgs.pack(m)])
        meta.append(_meta_of([m]))
        calls.append([S_EXTRESP, nid, [], [], 118, b"", b"", []])
        meta.append(None)
    calls.append([DRAIN, msgs.opt(None)])
    meta.append(None)
    return {"role": role, "calls": calls, "meta": meta}


def gen_big_history(rng, role):
    """More than 64 KiB queued, handed out by partial drains, then refused and accepted sends: what is still
    queued must be exactly the accepted messages minus what was handed out."""
    size = rng.choice([65536, 70000, 131072 + 5, 300000])
    big = bytes([rng.getrandbits(8)]) * size
    first = rng.choice([65535, 65536, 65537, 70000, size, size + 10] + ([131072, 131073, 140000, 200000, 290000] if size > 200000 else []))
    calls, meta = [], []

    def add(c, m=None):
        calls.append(c)
        meta.append(m)

    if role == SERVER:
        m = [1, [3, b"", 2, 0, 0, 0, False, [7, b"objectClass"], []], []]
        add([RECV, msgs.pack(m)], _meta_of([m]))
        add([S_ENTRY, 1, b"cn=x", [[b"jpegPhoto", [big]]], []])
        add([DRAIN, msgs.opt(first)])
        if rng.random() < 0.5:
            add([DRAIN, msgs.opt(rng.choice([1, 100, 0]))])
        refused = [[S_EXTRESP, 99, [], [], 0, b"", b"", []], [S_DONE, 98, 0, b"", b"", []], [S_ENTRY, 5, b"cn=y", [], []],
                   [S_BINDRESP, 7, [], 0, b"", b"", []], [S_EXTRESP, 0, [msgs.OID_NOTICE], [], 2, b"", b"", []]]
        add(rng.choice(refused))
        add([DRAIN, msgs.opt(rng.choice([None, 3, 65536]))])
        add([S_ENTRY, 1, b"cn=z", [[b"cn", [b"z"]]], []])
        add(rng.choice(refused))
        add([S_DONE, 1, 0, b"", b"", []])
        add([DRAIN, msgs.opt(None)])
        add([DRAIN, msgs.opt(None)])
    else:
        add([C_EXT, b"1.2.3", [big], []])
        add([DRAIN, msgs.opt(first)])
        add([C_BIND, b"cn=a", [0, b"pw"], []])      # refused while an operation is outstanding
        add([C_EXT, b"1.2.4", [b"abc"], []])
        add([DRAIN, msgs.opt(rng.choice([None, 3, 65536]))])
        add([C_SEARCH, b"", 2, 0, 0, 0, 0, [7, b"objectClass"], [], []])
        add([DRAIN, msgs.opt(None)])
        m = [1, [8, _ok_result(), [], []], []]
        add([RECV, msgs.pack(m)], _meta_of([m]))
        add([DRAIN, msgs.opt(None)])
    return {"role": role, "calls": calls, "meta": meta}


def boundary_histories(role=None):
    """Fixed corpus run first by every session property."""
    out = []
    for r in (CLIENT, SERVER):
        if role is not None and r != role:
            continue
        rng = random.Random(20261001 + r)
        out.append(gen_long_history(rng, r, cycles=300))
        out.append(gen_long_history(rng, r, cycles=258))
        for _ in range(5):
            out.append(gen_big_history(rng, r))
    return out


# ------------------------------------------------------------------ helpers for oracles
def first_tlv_id_and_op(delta: bytes):
    """(message id, op class, op number, total units) of the bytes one accepted send appended."""
    units, residue, err = ber.frame(delta)
    if err or residue != len(delta) or len(units) != 1:
        return None
    t = ber.parse_tree(delta)
    kids = t[0][3]
    if t[0][:3] != (0, True, 16) or len(kids) < 2 or kids[0][:3] != (0, False, 2):
        return None
    return ber.dec_int(kids[0][3]), kids[1][0], kids[1][2]


CALL_OPNUM = {C_BIND: 0, C_EXT: 23, C_SEARCH: 3, S_BINDRESP: 1, S_EXTRESP: 24, S_ENTRY: 4, S_REF: 19, S_DONE: 5, UNBIND: 2}
