"""Text s-expressions shared with ocaml/driver.ml:  i<sign><hex> | x<hex> | ( ... )

Python values: int <-> i..., bytes <-> x..., list/tuple <-> (...).  bool is sent as 0/1, None as ().
"""
from __future__ import annotations


def dumps(v) -> str:
    if v is True:
        return "i+1"
    if v is False:
        return "i+0"
    if v is None:
        return "()"
    if isinstance(v, int):
        return ("i-%x" % -v) if v < 0 else ("i+%x" % v)
    if isinstance(v, (bytes, bytearray, memoryview)):
        return "x" + bytes(v).hex()
    if isinstance(v, (list, tuple)):
        return "(" + " ".join(dumps(x) for x in v) + ")"
    raise TypeError(f"cannot serialise {type(v).__name__}")


def loads(s: str):
    pos = 0
    n = len(s)

    def parse():
        nonlocal pos
        while pos < n and s[pos] == " ":
            pos += 1
        c = s[pos]
        if c == "(":
            pos += 1
            items = []
            while True:
                while pos < n and s[pos] == " ":
                    pos += 1
                if s[pos] == ")":
                    pos += 1
                    return items
                items.append(parse())
        st = pos + 1
        pos += 1
        while pos < n and s[pos] not in " )":
            pos += 1
        tok = s[st:pos]
        if c == "i":
            v = int(tok[1:], 16)
            return -v if tok[0] == "-" else v
        if c == "x":
            return bytes.fromhex(tok)
        raise ValueError(f"bad sexp at {st}: {s[:80]!r}")

    v = parse()
    return v


def opt(v):
    """Optional value: () or (v)."""
    return [] if v is None else [v]
