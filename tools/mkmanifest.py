#!/usr/bin/env python3
"""Regenerate MANIFEST.json from the table below (kept in one place so it never drifts)."""
import json
import os

HERE = os.path.dirname(os.path.abspath(__file__))
TB = ("Trusted: Coq 8.16.1 kernel; extraction with ExtrOcamlBasic only + ocaml/driver.ml; tools/translate.py; the Python "
      "harness (generators, renderers, oracles). The Gallina model is hand-written and tied to the Python only by the "
      "differential correspondence on the cases generated in each run (plus regenerated tables/regexes).")

CHECKS = {
 "C07": ("proof", "Coq theorems over an executable Gallina mirror of asn1.py, for all integers / contents / tags / lengths: the integer reader computes the two's-complement value of any non-empty content, the writer emits the unique minimal encoding, header/TLV/boolean/sequence round trips never over-consume. No axioms.",
         "Lengths below 256^125 octets; tag class 0..3 and universal numbers of the TypeTagNumber table.",
         "machine-checked proof in Coq (induction, lia/nia) + regenerated tables + extracted-model/implementation differential correspondence + arithmetic oracle"),
 "C08": ("proof", "Coq theorems over the Gallina model of _session.py for every state and call: CLOSED is absorbing (nothing but draining queued bytes has an effect), every step is a transition of the documented state machine with its documented trigger (up to the one deviation pinned by the existing test-suite, proved to be the only one and recorded as a known finding, and crash outcomes), bind needs nothing outstanding, the BINDING gate, mandatory closes. Histories of the real client/server are compared step by step with the extracted model and judged by an independent lifecycle monitor.",
         "Receive-side crash outcomes (KeyError/OutOfFuel) are excluded by the C09/C05 theorems, not here.",
         "machine-checked proof in Coq (case analysis over the step function, induction over message lists) + history correspondence + trace monitor"),
 "C09": ("proof", "Coq theorems: accepted client requests return the counter value (positive, fresh, consecutive, and the id inside the queued encoding); nothing else moves the counter; under the id invariant a response is accepted iff its id is outstanding, never KeyError; request-type messages and unknown ids are protocol errors; a search stays until SearchResultDone, everything else retires on its first response.",
         "The part of the id invariant that the response bookkeeping needs (search ids are outstanding ids) is proved for every reachable state; the numeric part (ids below the counter) is proved initially and used as a hypothesis of the freshness statement.",
         "machine-checked proof in Coq + client-history correspondence + independent in-progress bookkeeping oracle"),
 "C10": ("proof", "Coq theorems: a call refused with LDAPError leaves the outgoing stream unchanged; a well-typed send call ends only in success or LDAPError; an accepted server response has an outstanding id, a final one retires it, and any response to a non-outstanding id is refused without wire effect.",
         "Argument errors (lone surrogates in str arguments, invalid enum values) are outside the claim.",
         "machine-checked proof in Coq + history correspondence (pending bytes read from a deep-copied clone after every call)"),
 "C12": ("proof", "Coq theorem by induction over arbitrary call histories with a ghost stream: drained bytes ++ pending bytes = concatenated encodings of exactly the accepted sends, for any drain amounts (None, 0, negative, beyond the end); a drain changes nothing but the buffer.",
         "none beyond the common trusted base",
         "machine-checked proof in Coq (invariant over fold of step) + history correspondence"),
 "C01": ("other", "Differential correspondence: the extracted Gallina encoder/decoder (Msg/Encode.v, Msg/Decode.v, function-by-function mirrors of pack/unpack) and the implementation agree on encode, decode, remainder and error class for thousands of structured messages per run, and an independent field-wise oracle checks decode(encode m) = norm m, exact consumption and re-encoding. The Coq round-trip theorem over the model is not closed yet, so this is not claimed as proof.",
         "No theorem yet: assurance is bounded by the generated cases.",
         "extracted-model/implementation differential testing + round-trip oracle (Coq proof of the model's round trip pending)"),
}

OTHER_NOTE = "No Coq theorem about this property is closed yet in this commit: assurance is bounded by the generated cases."
def other(text, tech):
    return ("other", text + " The extracted Gallina model (function-by-function mirror of the Python) is run against the implementation on every generated case and an independent oracle judges the implementation directly.", OTHER_NOTE, tech)

CHECKS.update({
 "C02": other("Chunked deliveries of well-formed message streams are compared with the single delivery (messages, order, final state), with the caller overwriting its input buffer after each call.", "extracted-model/implementation differential testing over chunkings + single-delivery oracle (chunk-independence theorem pending)"),
 "C03": other("The implementation's bytes are decoded by an independent strict RFC 4511 decoder written from the ASN.1 module and compared with the abstract message; one known finding (UnbindRequest constructed bit, pinned by tests).", "independent RFC 4511 strict decoder + model/implementation encoder correspondence (spec-equivalence theorem pending)"),
 "C04": other("An independent RFC 4511 encoder re-encodes each message with per-node random BER freedoms (long-form lengths, non-FF TRUE, explicit defaults, trailing unknown elements); the decoded value must equal that of the canonical encoding.", "BER-freedom mutator + model/implementation decoder correspondence (valid_enc theorem pending)"),
 "C05": other("Arbitrary and single-node-corrupted byte streams in any chunking and state: only ProtocolError may escape, the session is CLOSED and refuses input afterwards, attached bytes are a notice of disconnection / unbind; one known finding (unbind constructed bit).", "malformed-stream differential testing + exception-class / fail-closed oracle (totality theorem pending)"),
 "C06": other("Streams of complete outer TLVs with damaged interiors: an independent framer counts complete units after every call and compares with the messages returned.", "independent TLV framer oracle + model/implementation correspondence (framing theorem pending)"),
 "C11": other("Joint histories of a real client and server over byte pipes with arbitrary partial deliveries; exactly-once in-order delivery, no spurious ProtocolError, agreement at quiescence probed on deep-copied clones.", "joint-simulation differential testing + delivery/agreement oracle (joint invariant pending)"),
 "C13": other("Filter trees with hostile values are printed and re-parsed; the text is also parsed by an independent RFC 4515 reference parser.", "print/parse round-trip oracle + reference parser + model/implementation correspondence (round-trip theorem pending)"),
 "C14": other("Sentences of the RFC 4515 grammar (all productions, both hex cases, raw UTF-8, options, OIDs, tolerated spaces) generated from trees; result compared with the generating tree, the reference parser and an independent RFC 4511 encoding of the SearchRequest.", "grammar-sentence generation + reference parser + model/implementation correspondence (grammar-completeness theorem pending)"),
 "C15": other("Single-character edits of sentences, random text, unbalanced and very deep nesting: only FilterSyntaxError with in-range offset/length, accepted filters have valid attributes and re-parse from their own text; two known findings pinned by tests.", "mutation testing of the parser + totality/bounds/validity oracle + model/implementation correspondence (totality theorem pending)"),
 "C16": other("Valid schema descriptions of the three kinds are printed and re-parsed; the text is also parsed by an independent RFC 4512 reference parser.", "print/parse round-trip oracle + reference parser + model/implementation correspondence (qdstring round-trip theorem pending)"),
 "C17": other("Sentences of the three RFC 4512 grammars with all spacing / list-form / escape-case choices, plus mutated strings for the totality clause.", "grammar-sentence generation + reference parser + model/implementation correspondence"),
 "C18": other("Partial theorems + timing experiment. Coq theorems (no axioms) bound, for every input, the number of iterations of every hand-written loop (receive's message loop, the filter parser's loops, the extension and re.sub loops of the schema parsers: each stops within the length of what it scans plus one) and the recursion depth of the backtracking matcher (pattern size + input length, for every pattern). NOT proved: the number of steps of the matcher, i.e. the time of one regular-expression match - a cost semantics for backtracking on failing inputs and an ambiguity certificate per pattern were not built. That part, and the tie of cost to the implementation, is a timing experiment: adversarial input families for every parser and for receive are timed at doubling sizes (absolute and growth thresholds); the regular expressions are regenerated from the source on every run.", "partial Coq theorems (iteration and depth bounds) + CPU-time growth measurement on adversarial families"),
 "C19": other("Pairs of session histories run interleaved and alone must give identical transcripts; custom control / filter / credential registration is exercised with distinct type sets per session.", "interleaved-vs-isolated transcript comparison + registration oracle + two independent model instances"),
})

CHECKS.update({
 "C02": ("proof", "Coq theorem over the Gallina model of receive (both code paths) and of the whole decoder: for any byte stream whose single delivery succeeds from any open state, and any partition into chunks, the chunked delivery succeeds with the same messages in the same order and the same final session state. Proved from prefix-stability of the header reader and of unpack_message, parser fuel irrelevance and sequential message processing. Chunked vs single delivery is also compared on the implementation and against the extracted model.",
         "The 'returned values are self-contained' clause (aliasing of the caller's buffer) cannot be expressed in Gallina (values cannot alias): it is checked on the implementation only, by overwriting the input bytearray after each call. Streams whose single delivery raises are covered by the correspondence only.",
         "machine-checked proof in Coq (induction over the parse, prefix-stability lemmas) + chunked-delivery correspondence + aliasing experiment"),
 "C05": ("proof", "Coq theorems: in every state reachable by any history of calls, for every byte string and recursion budget, receive returns messages or raises ProtocolError (no IndexError/KeyError/RecursionError/exhausted loop: all loops of the decoder are shown to make progress, the bookkeeping invariant 'search ids are outstanding' is shown to hold in every reachable state); after a ProtocolError the state is CLOSED and every later delivery is refused without effect.",
         "The bytes attached to the error (notice of disconnection / unbind) are classified only abstractly in the model (their diagnostic text is opaque); their well-formedness is judged on the implementation by the oracle (one known finding: unbind constructed bit). Exception classes the model has no constructor for (MemoryError, a TypeError introduced by a future edit) are visible only to the malformed-stream correspondence.",
         "machine-checked proof in Coq (progress/termination lemmas for every decoder loop, invariant over histories) + malformed-stream correspondence + fail-closed oracle"),
 "C06": ("proof", "Coq theorem: an independent framer (identifier and length octets only, written from X.690) is defined and proved to agree with the header reader; in every error-free receive from any open state the messages returned are exactly the complete units of (held-back octets ++ new data) and only a genuinely incomplete unit is held back.",
         "none beyond the common trusted base",
         "machine-checked proof in Coq (framer/reader agreement, induction over the stream parser) + independent Python framer oracle on damaged-interior streams"),
})

CHECKS.update({
 "C01": ("proof", "Coq theorem over the Gallina mirrors of LDAPMessage.pack and unpack_ldap_message (every _pack_inner / unpack function, filters, controls, credentials): for every well-formed message of all 9 kinds, any filter shape and depth within the recursion budget, any controls, and any trailing octets, decode(encode m ++ rest) = (norm m, rest) and encode(norm m) = encode m, where norm only fills the raw value octets of the paged-results control. Built on the C07 TLV lemmas; no axioms. The model is compared with the implementation on thousands of structured messages per run and an independent field-wise oracle re-checks the property on the implementation.",
         "Python str fields are represented by their UTF-8 octets (valid UTF-8 <-> surrogate-free str); encodings are assumed shorter than 256^125 octets; a generic control carrying a library-known OID is outside the claim; dataclass equality is compared field-wise by the harness (result codes through .value).",
         "machine-checked proof in Coq (structural induction over filters on the recursion budget, loop-stepping lemmas) + extracted-model/implementation differential correspondence + round-trip oracle"),
})

CHECKS.update({
 "C03": ("proof", "Coq theorems: (1) for every message of every operation except UnbindRequest the model encoder's octets equal the serialisation of the BER tree that the RFC 4511 ASN.1 module prescribes (Msg/Rfc.v, written from the RFC: class, number and form of every element, TRUE=FF, DEFAULT/OPTIONAL omission, minimal integers, definite minimal lengths); (2) a strict decoder written from the RFC in two layers (generic definite-length BER tree parser; tree-to-message reader demanding exact tags and forms, FF booleans, omitted defaults, minimal integers, no left-overs) returns exactly the encoded message for every such message, with filters of any depth; (3) the tag constants regenerated from the source are the RFC's numbers. The full statement is refuted for UnbindRequest (constructed bit, 62 00 instead of 42 00: known finding pinned by nine tests). The extracted strict decoder is run on the bytes the implementation produces in every run, next to an independent Python decoder.",
         "SIZE(1..MAX) and value-range subtype constraints of the ASN.1 module are not part of the strict decoder (the property lists tag/form/length/boolean/default/integer rules); encodings shorter than 256^125 octets.",
         "machine-checked proof in Coq (spec-tree equality by structural induction, strict parser round trip by induction over trees with explicit fuel) + extracted strict decoder run on implementation bytes + independent Python RFC 4511 decoder"),
})

CHECKS.update({
 "C11": ("proof", "Coq theorems over the joint system of a client session and a server session of the session model (the same step / process_all that are compared with the implementation on every run) joined by two FIFO queues, for every finite interleaving of accepted client calls, accepted server calls that answer an outstanding request with a response of the matching kind, deliveries and refusals at closed endpoints: (1) the message arriving next at an open endpoint is always accepted unless it is a designed termination (unbind, notice of disconnection) - never 'unknown id', never KeyError, never 'bind with outstanding operations'; (2) whenever both queues are empty the two sides agree on the state (BEFORE_OPEN ~ OPENED) and on the outstanding and search id sets; proved by refinement to an abstract message-level protocol with a 24-clause inductive invariant (id freshness, no response after a final one, bind handshake phases). (3) the octets of any message sequence parse back to exactly those messages once and in order, for any chunking. Joint histories of the real client and server over byte pipes are checked on every run.",
         "The queue-level theorems (1)-(2) and the byte-level theorems (3), C02 (chunking) and C12 (outgoing stream = encodings of accepted sends) are separate theorems: their composition into one statement about byte pipes is not mechanised. Messages are delivered one at a time (a batch is processed message by message: process_all_cons).",
         "machine-checked proof in Coq (refinement to an abstract protocol, inductive invariant over all interleavings) + joint-simulation differential testing over byte pipes + delivery/agreement oracle"),
})

CHECKS.update({
 "C04": ("proof", "Coq theorems over the decoder model (the function-by-function mirror of unpack_ldap_message that is compared with the implementation on every run): (1) the header reader returns the same tag and length for every valid definite length form (short, or long with 1..126 length octets, leading zeros included); (2) for every peer encoder that chooses, per TLV node, any valid length octets as a function of the node's content, writes TRUE as any one non-zero octet, may write DEFAULT FALSE components (criticality, dnAttributes) explicitly, and appends at each of the sixteen extensible SEQUENCE sites any list of unrecognised elements (APPLICATION or PRIVATE class with any tag number incl. those of defined components, or context-specific numbers above 11), every message of every operation with filters of any depth and any controls decodes, consuming exactly the message, to the value decoded from the library's own encoding (modulo the raw value octets a paged-results control exposes, which are 'as received'). The minimal lengths and Active Directory's fixed four-octet lengths are proved to be instances. An independent Python RFC 4511 encoder with per-node random freedoms (incl. trailing elements with arbitrary unrecognised tags) is run against implementation and extracted model on every run.",
         "Trailing elements with UNIVERSAL tags (e.g. NULL) are exercised by the differential check only (at the control and SASL sites a universal BOOLEAN / OCTET STRING would be a defined component). The length-octet choice is a function of the node's content, so two nodes with identical content get the same form; the TRUE octet is one value per message. Encodings below 256^125 octets.",
         "machine-checked proof in Coq (generalised TLV lemmas + the C01 development replayed for a parametrised peer encoder) + BER-freedom differential testing against implementation and extracted model"),
})

CHECKS.update({
 "C13": ("proof", "Coq theorem over the Gallina mirrors of __str__ (all ten filter classes) and of LDAPFilter.from_string (strip, surrogateescape encoding, the recursive-descent parser with absolute offsets, the value unescaper and the substrings / extensible-header splitters, with the regexes regenerated from the source on every run): for every filter tree of any depth and fan-out whose attribute descriptions / matching rules match the generated _ATTRIBUTE_PATTERN and whose shape RFC 4515 can express, and ARBITRARY assertion-value octets, from_string(str(f)) = f, also inside any surrounding text (the parser stops exactly at the end). Separately: every octet string is recovered from its escaped form; the escaped form contains no special octet except the escape backslash; the whole text is ASCII. The regex semantics used are a derivative matcher and a backtracking matcher with captures, for which general lemmas (alphabet of a match, re.sub with a character class) are proved. Print/parse runs on the implementation and the extracted model on every run and is judged by an independent RFC 4515 reference parser.",
         "wf_tfilter excludes what the text form cannot express: empty and/or lists, substrings with no or empty components, extensible match with neither attribute, rule nor :dn, a rule spelled 'dn' without the :dn flag. The two regex engines model CPython's sre for the constructs these patterns use (classes, concatenation, alternation, greedy star, groups); their agreement with sre is checked by the correspondence only.",
         "machine-checked proof in Coq (strong induction on the recursion budget, loop-stepping lemmas, regex lemmas) + print/parse differential testing + RFC 4515 reference parser"),
})

CHECKS.update({
 "C14": ("proof", "Coq theorem over the Gallina mirror of LDAPFilter.from_string: an inductive definition of the RFC 4515 section 3 grammar (filter / and / or / not / filterlist / simple / present / substring / extensible items; values as *(normal / backslash hex hex) with hex digits in either case, raw UTF-8 and control octets, empty values; attribute descriptions and matching rules as accepted by the _ATTRIBUTE_PATTERN regenerated from the source; the spaces the parser tolerates after '(', after the operator and after each filter of a list) relates sentences to the trees they denote, and EVERY sentence, at any nesting depth within the recursion budget and inside any surrounding text, is parsed to exactly its tree, consuming exactly the sentence; the encoder then produces the RFC 4511 encoding of that tree (C03). The text __str__ writes is proved to be one sentence, so C13 is an instance. Sentences generated from the grammar are also run through the implementation, the extracted model and an independent reference parser on every run.",
         "Attribute descriptions are 'what the library's pattern accepts' (the differences from RFC 4512 are the two C15 known findings); outer whitespace removal (str.strip) and the str->octets encoding are not part of this theorem (they are in C13's from_string statement for ASCII text).",
         "machine-checked proof in Coq (inductive grammar, strong induction on the recursion budget, loop-stepping and space-skipping lemmas) + grammar-sentence differential testing + RFC 4515 reference parser"),
})

CHECKS.update({
 "C15": ("proof", "Coq theorems over the Gallina mirror of LDAPFilter.from_string, for EVERY string (any code points, lone surrogates included) and every recursion budget: (1) the result is a filter or FilterSyntaxError - never another exception: every loop of the parser is shown to make progress (an accepted item consumes at least one octet), re.sub and the backtracking matcher on the generated escape pattern never exhaust their steps (general lemma for star-free patterns), split never returns an empty list, RecursionError is converted; (2) whenever a filter is returned, all its attribute descriptions and matching rules match the generated attribute pattern and its shape is expressible (non-empty and/or, well-formed substrings / extensible match), within the budget; (3) the text form of the returned filter parses back to the same filter (with C13); (4) the offset and length reported by a FilterSyntaxError lie inside the encoded filter (inside the string for an unencodable character). The clause 'RFC 4512-valid' is refuted for the library's own pattern by two concrete witnesses (the two known findings, pinned by passing tests). Mutated sentences, random text and deep nesting are run through implementation and extracted model on every run.",
         "The str -> octets step models CPython's utf-8/surrogateescape encoder; offsets are octet offsets into the encoded filter as the implementation reports them.",
         "machine-checked proof in Coq (progress and soundness invariants over the parser loops, mutual induction on the recursion budget) + mutation testing of the parser + totality/validity oracle"),
})

CHECKS.update({
 "C16": ("proof", "Coq theorems (no axioms), one per description type: for every object class / attribute type / DIT content rule whose fields are valid per RFC 4512 (numeric OID of two or more arcs, descriptor names, OID lists or single OIDs, optional non-empty description, extensions with distinct [a-zA-Z-_]+ keys and non-empty values incl. the empty value list, any flags, kind, usage, numeric-OID syntax with any non-negative length), str() succeeds and from_string() of that text returns the description field for field. The proof runs the backtracking matcher with captures through the pattern GENERATED FROM THE SOURCE on every run (Gen/Generated.v; a structured copy in Schema/Regex.v is proved equal to it by computation, so an edit of any fragment breaks the build) - greedy repetition, optional parts skipped by keyword mismatch, capture groups tracked to the slices the code reads - and then through the model of the field readers (strip/split, qdstring un-escaping, extension loop, NOIDLEN split, int()). The validity conditions are executable (Schema/WfDec.v, proved to imply the hypotheses) and are evaluated by the extracted model on every generated description: all must satisfy them. The tie of the Gallina model to the Python code is the differential correspondence (str and from_string, implementation vs extracted model) plus an independent RFC 4512 reference parser.",
         "Python's sre engine is modelled by the continuation-passing backtracking matcher of Rx/Syntax.v (leftmost alternative first, greedy repeats, last capture wins); its agreement with CPython on these patterns is established by the correspondence only. Strings are sequences of code points (no lone surrogates).",
         "machine-checked proof in Coq (stepping the backtracking matcher through the generated patterns; field-reader round trips) + executable validity conditions evaluated on generated descriptions + print/parse correspondence + reference parser"),
 "C19": ("other", "Pairs of session histories run interleaved and alone must give identical transcripts; custom control / filter / credential registration is exercised with distinct type sets per session, with a different class for a taken id and classes colliding with built-in ids. A Coq theorem states that in the model any interleaving of two sessions' calls gives each the outcomes and state it gets alone - true by construction of a pure model (no shared state), so it documents the model rather than the code: whether Python objects share state is what the experiment decides.",
         "Hidden shared state in the implementation (class attributes, module-level registries) cannot be exhibited by a pure Gallina model; custom-type registries are not modelled.",
         "interleaved-vs-isolated transcript comparison + registration oracle + two independent model instances; Coq theorem on the model's product structure"),
})

CHECKS.update({
 "C17": ("proof", "Coq theorems (no axioms). Grammar clause: the sentences of the three RFC 4512 description grammars are given as concrete syntax trees - the fields plus every choice the grammar leaves open (length of every WSP / SP run, bare or parenthesised name / OID / string lists of any length incl. empty ones, \\5c or \\5C, kind and usage written or left out, any number of extensions, the quoted SYNTAX value Active Directory emits) - with a function writing the sentence and a function giving the denoted description; for every well-formed tree of each of the three types from_string returns exactly the denotation (the backtracking matcher is stepped through the pattern generated from the source with runs of spaces of any length, then the field readers - strip/split/lstrip loops - are shown to compute the denotation for any spacing). Totality clause: for ANY string each from_string returns a definition or raises ValueError (the matcher never exhausts its steps, re.sub always answers, the extension loops make progress, indexed groups are always captured). The tree conditions are executable and are evaluated by the extracted model on random trees; the Coq rendering of each tree is compared with an independent Python rendering, and the sentence is parsed by the implementation and by an independent RFC 4512 reference parser, which must both give the value the tree was made from.",
         "That every string derivable from the ABNF is the rendering of some tree is by construction of the tree type (one constructor per ABNF alternative), cross-checked only in the tree->reference-parser direction. A repeated extension key denotes a dict update (first position, last values), as in the code and in the reference parser. Python's sre is modelled by the matcher of Rx/Syntax.v; its agreement with CPython on these patterns is established by the correspondence.",
         "machine-checked proof in Coq (grammar as concrete syntax trees; matcher stepped through the generated patterns for arbitrary spacing; reader loops) + executable tree conditions on random trees + independent renderer and reference parser + model/implementation correspondence"),
})

def main():
    m = {
        "version": 1,
        "setup_cmd": "./setup.sh",
        "hooks": {
            "guard": "SANSLDAP_VERIF",
            "enable": "no hook is compiled into /repo: every observation point is public API (plus deep-copied clones); checks run the library from /repo/src via PYTHONPATH",
            "baseline_off_cmd": "cd /repo && /venv/bin/python -m pytest -ra -q -p no:cacheprovider --timeout=900 --continue-on-collection-errors",
            "source_commits": [],
            "add_only": True,
        },
        "engines": [{"name": "coq-model+correspondence", "path": "check", "serves_properties": sorted(CHECKS),
                     "kind_free_text": "Coq 8.16 theorems over a Gallina model; model extracted to OCaml and run against the Python implementation"}],
        "checks": [],
        "not_applicable": [],
        "notes": "See DESIGN.md. known_findings.json lists repaired defects (fixed) and defects pinned by the existing test-suite (known).",
    }
    for pid in sorted(CHECKS):
        cat, text, note, tech = CHECKS[pid]
        m["checks"].append({
            "property_id": pid,
            "quick_cmd": f"./check {pid} --tier quick",
            "thorough_cmd": f"./check {pid} --tier thorough",
            "evidence_file": f"evidence/{pid}.json",
            "replay_cmd_template": f"./check {pid} --replay {{path}}",
            "engine": "coq-model+correspondence",
            "level_claimed": {"category": cat, "text": text, "design_ref": f"DESIGN.md section 7, {pid}"},
            "level_note": TB + " " + note,
            "technique": tech,
        })
    props = [json.loads(l)["id"] for l in open(os.path.join(HERE, "..", "properties.jsonl"))]
    for pid in props:
        if pid not in CHECKS:
            m["not_applicable"].append({"property_id": pid, "reason": "check under construction in this round (model/harness not committed yet); the technique applies, see DESIGN.md section 7"})
    with open(os.path.join(HERE, "..", "MANIFEST.json"), "w") as fh:
        json.dump(m, fh, indent=1)

main()
