"""Independent BER helpers written from X.690 (used only by oracles/generators, never by the
model): a strict TLV parser, a canonical encoder, and deliberately non-canonical encoders."""
from __future__ import annotations


class Incomplete(Exception):
    pass


class Malformed(Exception):
    pass


def enc_ident(cls: int, cons: bool, num: int) -> bytes:
    first = (cls << 6) | (0x20 if cons else 0)
    if num < 31:
        return bytes([first | num])
    out = [num & 0x7F]
    num >>= 7
    while num:
        out.append(0x80 | (num & 0x7F))
        num >>= 7
    return bytes([first | 31]) + bytes(reversed(out))


def enc_len(n: int, form: int = 0) -> bytes:
    """form 0 = minimal; form k>0 = long form with exactly max(k, needed) length octets."""
    if form == 0 and n < 128:
        return bytes([n])
    need = max(1, (n.bit_length() + 7) // 8)
    k = max(need, form)
    return bytes([0x80 | k]) + n.to_bytes(k, "big")


def tlv(cls: int, cons: bool, num: int, content: bytes, form: int = 0) -> bytes:
    return enc_ident(cls, cons, num) + enc_len(len(content), form) + content


def enc_int(z: int) -> bytes:
    """Minimal two's complement content octets (X.690 8.3)."""
    n = 1
    while not (-(1 << (8 * n - 1)) <= z < (1 << (8 * n - 1))):
        n += 1
    return z.to_bytes(n, "big", signed=True)


def dec_int(content: bytes) -> int:
    if not content:
        raise Malformed("empty integer")
    return int.from_bytes(content, "big", signed=True)


def parse_header(data: bytes, pos: int = 0):
    """-> (cls, cons, num, header_len, content_len).  Incomplete if the header itself is cut."""
    n = len(data)
    if pos >= n:
        raise Incomplete()
    o = data[pos]
    cls, cons, num = o >> 6, bool(o & 0x20), o & 0x1F
    i = pos + 1
    if num == 31:
        num = 0
        while True:
            if i >= n:
                raise Incomplete()
            b = data[i]
            i += 1
            num = (num << 7) | (b & 0x7F)
            if not b & 0x80:
                break
    if i >= n:
        raise Incomplete()
    l0 = data[i]
    i += 1
    if l0 == 0x80:
        raise Malformed("indefinite length")
    if l0 & 0x80:
        k = l0 & 0x7F
        if i + k > n:
            raise Incomplete()
        length = int.from_bytes(data[i : i + k], "big")
        i += k
    else:
        length = l0
    return cls, cons, num, i - pos, length


def frame(data: bytes):
    """Split a stream into complete top-level TLVs using identifier/length octets only.
    -> (list of (start, end), residue_start, error or None)."""
    units = []
    pos = 0
    while pos < len(data):
        try:
            _, _, _, hl, ln = parse_header(data, pos)
        except Incomplete:
            return units, pos, None
        except Malformed as e:
            return units, pos, str(e)
        if pos + hl + ln > len(data):
            return units, pos, None
        units.append((pos, pos + hl + ln))
        pos += hl + ln
    return units, pos, None


def parse_tree(data: bytes):
    """Strict recursive parse of definite-length BER into (cls, cons, num, content|children)."""
    out = []
    pos = 0
    while pos < len(data):
        try:
            cls, cons, num, hl, ln = parse_header(data, pos)
        except Incomplete:
            raise Malformed("truncated header") from None
        if pos + hl + ln > len(data):
            raise Malformed("content overruns")
        content = data[pos + hl : pos + hl + ln]
        out.append((cls, cons, num, parse_tree(content) if cons else content))
        pos += hl + ln
    return out
