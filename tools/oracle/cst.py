"""Concrete syntax trees of RFC 4512 description sentences: a value plus every spacing / list-form / escape-spelling
choice.  The list form is what Extract/DriverMsg.v decodes (g_occ / g_atc / g_dcrc); render() writes the sentence
independently of the Coq definitions, so that the two renderings can be compared."""
from __future__ import annotations

KIND_N = {"ABSTRACT": 0, "STRUCTURAL": 1, "AUXILIARY": 2}
KIND_S = {v: k for k, v in KIND_N.items()}
USAGE_N = {"userApplications": 0, "directoryOperation": 1, "distributedOperation": 2, "dSAOperation": 3}
USAGE_S = {v: k for k, v in USAGE_N.items()}


def U(s):
    return [ord(c) for c in s]


def S(l):
    return "".join(chr(c) for c in l)


def make(rng, kind, v, ad_syntax=False, dup_values=None):
    """-> list form of the tree"""
    def a():  # SP = 1 + a spaces
        return rng.choice([0, 0, 0, 1, 2, 4])

    def w():  # WSP
        return rng.choice([0, 0, 1, 2])

    def ds(s):
        out = []
        for c in s:
            if c == "'":
                out.append(-1)
            elif c == "\\":
                out.append(rng.choice([-2, -3]))
            else:
                out.append(ord(c))
        return out

    def qdescrs(l):
        if len(l) == 1 and rng.random() < 0.6:
            return [0, U(l[0])]
        if not l:
            return [1, w() + w()]
        return [2, w(), U(l[0]), [[a(), U(x)] for x in l[1:]], w()]

    def oids(l):
        if len(l) == 1 and rng.random() < 0.6:
            return [0, U(l[0])]
        return [1, w(), U(l[0]), [[w(), w(), U(x)] for x in l[1:]], w()]

    def qdstrings(l):
        if len(l) == 1 and rng.random() < 0.6:
            return [0, ds(l[0])]
        if not l:
            return [1, w() + w()]
        return [2, w(), ds(l[0]), [[a(), ds(x)] for x in l[1:]], w()]

    def part(x):
        return [a(), a(), x]

    name = part(qdescrs(v["names"])) if (v["names"] or rng.random() < 0.05) else []
    desc = part(ds(v["description"])) if v["description"] is not None else []
    obs = [a()] if v["obsolete"] else []
    head = [w(), U(v["oid"]), name, desc, obs]
    exts = [[a(), U(k), a(), qdstrings(vals)] for k, vals in v["extensions"].items()]
    if dup_values is not None and v["extensions"]:
        # a repeated key: the later item replaces the values of the earlier one, the position stays (dict assignment);
        # the caller updates the expected value accordingly
        k = rng.choice(list(v["extensions"]))
        exts.append([a(), U(k), a(), qdstrings(dup_values)])
        v["extensions"][k] = list(dup_values)

    def ol(l):
        return part(oids(l)) if l else []

    if kind == "object_class":
        k = [[a(), KIND_N[v["kind"]]]] if (v["kind"] != "STRUCTURAL" or rng.random() < 0.5) else []
        return [head, ol(v["super_types"]), k, ol(v["must"]), ol(v["may"]), exts, w()]
    if kind == "dit_content_rule":
        return [head, ol(v["aux"]), ol(v["must"]), ol(v["may"]), ol(v["never"]), exts, w()]

    def o1(x):
        return part(U(x)) if x is not None else []

    syn = []
    if v["syntax"] is not None:
        syn = part([1 if ad_syntax else 0, U(v["syntax"]), [] if v["syntax_length"] is None else [v["syntax_length"]]])
    fl = lambda b: [a()] if b else []  # noqa: E731
    usage = part(USAGE_N[v["usage"]]) if (v["usage"] != "userApplications" or rng.random() < 0.3) else []
    return [head, o1(v["super_type"]), o1(v["equality"]), o1(v["ordering"]), o1(v["substrings"]), syn,
            fl(v["single_value"]), fl(v["collective"]), fl(v["no_user_modification"]), usage, exts, w()]


# ---------------------------------------------------------------- independent rendering
def _sp(n):
    return " " * n


def _ds(l):
    out = []
    for c in l:
        out.append({-1: "\\27", -2: "\\5c", -3: "\\5C"}[c] if c < 0 else chr(c))
    return "'" + "".join(out) + "'"


def _qdescrs(c):
    if c[0] == 0:
        return "'" + S(c[1]) + "'"
    if c[0] == 1:
        return "(" + _sp(c[1]) + ")"
    return "(" + _sp(c[1]) + "'" + S(c[2]) + "'" + "".join(_sp(a + 1) + "'" + S(n) + "'" for a, n in c[3]) + _sp(c[4]) + ")"


def _oids(c):
    if c[0] == 0:
        return S(c[1])
    return "(" + _sp(c[1]) + S(c[2]) + "".join(_sp(a) + "$" + _sp(b) + S(o) for a, b, o in c[3]) + _sp(c[4]) + ")"


def _qdstrings(c):
    if c[0] == 0:
        return _ds(c[1])
    if c[0] == 1:
        return "(" + _sp(c[1]) + ")"
    return "(" + _sp(c[1]) + _ds(c[2]) + "".join(_sp(a + 1) + _ds(d) for a, d in c[3]) + _sp(c[4]) + ")"


def _part(kw, f, p):
    if not p:
        return ""
    a, b, x = p
    return _sp(a + 1) + kw + _sp(b + 1) + f(x)


def _flag(kw, o):
    return _sp(o[0] + 1) + kw if o else ""


def _head(h):
    w0, oid, name, desc, obs = h
    return "(" + _sp(w0) + S(oid) + _part("NAME", _qdescrs, name) + _part("DESC", _ds, desc) + _flag("OBSOLETE", obs)


def _tail(exts, w1):
    return "".join(_sp(a + 1) + "X-" + S(k) + _sp(b + 1) + _qdstrings(vals) for a, k, b, vals in exts) + _sp(w1) + ")"


def render(kind, c):
    if kind == "object_class":
        h, sup, k, must, may, exts, w1 = c
        s = _head(h) + _part("SUP", _oids, sup)
        if k:
            s += _sp(k[0][0] + 1) + KIND_S[k[0][1]]
        return s + _part("MUST", _oids, must) + _part("MAY", _oids, may) + _tail(exts, w1)
    if kind == "dit_content_rule":
        h, aux, must, may, nt, exts, w1 = c
        return _head(h) + _part("AUX", _oids, aux) + _part("MUST", _oids, must) + _part("MAY", _oids, may) + _part("NOT", _oids, nt) + _tail(exts, w1)
    h, sup, eq, ord_, sub, syn, single, col, num, usage, exts, w1 = c

    def synf(x):
        body = S(x[1]) + ("{%d}" % x[2][0] if x[2] else "")
        return "'" + body + "'" if x[0] == 1 else body

    return (_head(h) + _part("SUP", S, sup) + _part("EQUALITY", S, eq) + _part("ORDERING", S, ord_) + _part("SUBSTR", S, sub)
            + _part("SYNTAX", synf, syn) + _flag("SINGLE-VALUE", single) + _flag("COLLECTIVE", col) + _flag("NO-USER-MODIFICATION", num)
            + _part("USAGE", lambda u: USAGE_S[u], usage) + _tail(exts, w1))
