"""RFC 4511 LDAPMessage encoder/decoder written from the RFC's ASN.1 module only (appendix B),
independent of the library and of the Coq model.  Works on the neutral list form of lib/msgs.py
with controls in their abstract shape [0 oid criticality opt(value)].

decode_strict(): exact class / number / primitive-constructed form for every element, definite
lengths, primitive octet strings, BOOLEAN TRUE = FF, DEFAULT values and absent optionals omitted,
minimal two's-complement integers, components in order, nothing trailing.
encode(): canonical by default; a Style object can exercise the freedoms BER gives a peer."""
from __future__ import annotations

from . import ber

U, A, C, P = 0, 1, 2, 3


class Bad(Exception):
    pass


class Style:
    """Canonical choices."""

    def length_form(self, n):
        return 0

    def true_octet(self):
        return 0xFF

    def explicit_default(self):
        return False

    def trailing(self, where):
        return b""


class RandomStyle(Style):
    def __init__(self, rng, long_len=0.35, odd_true=0.5, defaults=0.5, trail=0.25):
        self.rng = rng
        self.p = (long_len, odd_true, defaults, trail)
        self.used = set()

    def length_form(self, n):
        if self.rng.random() < self.p[0]:
            self.used.add("long-length")
            return self.rng.choice([1, 2, 3, 4, 4, 4, 8, 9, 16, 126])
        return 0

    def true_octet(self):
        if self.rng.random() < self.p[1]:
            self.used.add("true-nonFF")
            return self.rng.choice([0x01, 0x7F, 0x80, 0xFE, self.rng.randint(1, 255)])
        return 0xFF

    def explicit_default(self):
        if self.rng.random() < self.p[2]:
            self.used.add("explicit-default")
            return True
        return False

    def trailing(self, where):
        """An element no component of the enclosing SEQUENCE recognises: any tag number (in particular the numbers
        of defined components) in the APPLICATION / PRIVATE classes, context-specific numbers above every defined
        one, and universal types that no defined optional component at that place could be."""
        if self.rng.random() < self.p[3]:
            self.used.add("trailing:" + where)
            rng = self.rng
            r = rng.random()
            payload = bytes(rng.getrandbits(8) for _ in range(rng.randint(0, 5)))
            inner = ber.tlv(U, False, 4, b"x") if rng.random() < 0.7 else b""
            if r < 0.45:
                cls = rng.choice([A, P])
                num = rng.choice([0, 1, 2, 3, 4, 5, 7, 9, 10, 11, 12, 30, 31, 200, 1024])
                if rng.random() < 0.3:
                    return ber.tlv(cls, True, num, inner, rng.choice([0, 0, 1, 2, 4]))
                return ber.tlv(cls, False, num, payload, rng.choice([0, 0, 1, 2, 4]))
            if r < 0.65:
                nums = [5] if where in ("control", "sasl") else [5, 5, 2, 10, 12]
                num = rng.choice(nums)
                return ber.tlv(U, False, num, b"" if num == 5 else (payload or b"\x00"))
            num = rng.choice([12, 20, 25, 31, 99, 128, 1024])
            if rng.random() < 0.5:
                return ber.tlv(C, True, num, inner, rng.choice([0, 0, 1, 2, 4]))
            return ber.tlv(C, False, num, payload, rng.choice([0, 0, 1, 2, 4]))
        return b""


# ------------------------------------------------------------------ encoder
class Enc:
    def __init__(self, style=None):
        self.s = style or Style()

    def tlv(self, cls, cons, num, content):
        return ber.enc_ident(cls, cons, num) + ber.enc_len(len(content), self.s.length_form(len(content))) + content

    def integer(self, z, cls=U, num=2):
        return self.tlv(cls, False, num, ber.enc_int(z))

    def enum(self, z):
        return self.tlv(U, False, 10, ber.enc_int(z))

    def octets(self, b, cls=U, num=4):
        return self.tlv(cls, False, num, b)

    def boolean(self, v, cls=U, num=1):
        return self.tlv(cls, False, num, bytes([self.s.true_octet() if v else 0]))

    def result(self, r):
        code, matched, diag, refs = r
        out = self.enum(code) + self.octets(matched) + self.octets(diag)
        if refs:
            out += self.tlv(C, True, 3, b"".join(self.octets(u) for u in refs[0]))
        return out

    def control(self, c):
        _, oid, crit, value = c
        body = self.octets(oid)
        if crit:
            body += self.boolean(True)
        elif self.s.explicit_default():
            body += self.boolean(False)
        if value:
            body += self.octets(value[0])
        body += self.s.trailing("control")
        return self.tlv(U, True, 16, body)

    def filter(self, f):
        k = f[0]
        if k in (0, 1):
            return self.tlv(C, True, k, b"".join(self.filter(x) for x in f[1]))
        if k == 2:
            return self.tlv(C, True, 2, self.filter(f[1]) + self.s.trailing("not"))
        if k in (3, 5, 6, 8):
            return self.tlv(C, True, k, self.octets(f[1]) + self.octets(f[2]) + self.s.trailing("ava"))
        if k == 4:
            subs = b""
            if f[2]:
                subs += self.octets(f[2][0], C, 0)
            for a in f[3]:
                subs += self.octets(a, C, 1)
            if f[4]:
                subs += self.octets(f[4][0], C, 2)
            return self.tlv(C, True, 4, self.octets(f[1]) + self.tlv(U, True, 16, subs) + self.s.trailing("substrings"))
        if k == 7:
            return self.octets(f[1], C, 7)
        body = b""
        if f[1]:
            body += self.octets(f[1][0], C, 1)
        if f[2]:
            body += self.octets(f[2][0], C, 2)
        body += self.octets(f[3], C, 3)
        if f[4]:
            body += self.boolean(True, C, 4)
        elif self.s.explicit_default():
            body += self.boolean(False, C, 4)
        body += self.s.trailing("extensible")
        return self.tlv(C, True, 9, body)

    def op(self, op):
        k = op[0]
        if k == 0:
            cred = op[3]
            if cred[0] == 0:
                auth = self.octets(cred[1], C, 0)
            else:
                body = self.octets(cred[1])
                if cred[2]:
                    body += self.octets(cred[2][0])
                body += self.s.trailing("sasl")
                auth = self.tlv(C, True, 3, body)
            return 0, True, self.integer(op[1]) + self.octets(op[2]) + auth + self.s.trailing("bindrequest")
        if k == 1:
            body = self.result(op[1])
            if op[2]:
                body += self.octets(op[2][0], C, 7)
            return 1, True, body + self.s.trailing("bindresponse")
        if k == 2:
            return 2, False, b""
        if k == 3:
            body = (
                self.octets(op[1]) + self.enum(op[2]) + self.enum(op[3]) + self.integer(op[4]) + self.integer(op[5])
                + self.boolean(op[6]) + self.filter(op[7]) + self.tlv(U, True, 16, b"".join(self.octets(a) for a in op[8]))
            )
            return 3, True, body + self.s.trailing("searchrequest")
        if k == 4:
            attrs = b"".join(
                self.tlv(U, True, 16, self.octets(n) + self.tlv(U, True, 17, b"".join(self.octets(v) for v in vs)) + self.s.trailing("partialattribute"))
                for n, vs in op[2]
            )
            return 4, True, self.octets(op[1]) + self.tlv(U, True, 16, attrs) + self.s.trailing("entry")
        if k == 5:
            return 5, True, self.result(op[1]) + self.s.trailing("done")
        if k == 6:
            return 19, True, b"".join(self.octets(u) for u in op[1])
        if k == 7:
            body = self.octets(op[1], C, 0)
            if op[2]:
                body += self.octets(op[2][0], C, 1)
            return 23, True, body + self.s.trailing("extendedrequest")
        body = self.result(op[1])
        if op[2]:
            body += self.octets(op[2][0], C, 10)
        if op[3]:
            body += self.octets(op[3][0], C, 11)
        return 24, True, body + self.s.trailing("extendedresponse")

    def message(self, m):
        mid, op, controls = m
        num, cons, body = self.op(op)
        out = self.integer(mid) + self.tlv(A, cons, num, body)
        if controls:
            out += self.tlv(C, True, 0, b"".join(self.control(c) for c in controls))
        out += self.s.trailing("envelope")
        return self.tlv(U, True, 16, out)


def encode(m, style=None) -> bytes:
    return Enc(style).message(m)


# ------------------------------------------------------------------ strict decoder
class Cur:
    """Cursor over the children of one constructed value."""

    def __init__(self, kids):
        self.kids = list(kids)
        self.i = 0

    def more(self):
        return self.i < len(self.kids)

    def peek(self):
        return self.kids[self.i] if self.more() else None

    def take(self, cls, cons, num, what):
        k = self.peek()
        if k is None:
            raise Bad(f"{what}: mandatory component missing")
        if (k[0], k[1], k[2]) != (cls, cons, num):
            raise Bad(f"{what}: expected class {cls} {'constructed' if cons else 'primitive'} number {num}, found {k[:3]}")
        self.i += 1
        return k[3]

    def maybe(self, cls, cons, num):
        k = self.peek()
        if k is not None and (k[0], k[2]) == (cls, num):
            if k[1] != cons:
                raise Bad(f"class {cls} number {num} has the wrong primitive/constructed form")
            self.i += 1
            return k[3]
        return None

    def end(self, what):
        if self.more():
            raise Bad(f"{what}: unexpected trailing element {self.peek()[:3]}")


def d_int(content, what):
    if len(content) == 0:
        raise Bad(f"{what}: empty INTEGER")
    if len(content) > 1 and ((content[0] == 0 and content[1] < 0x80) or (content[0] == 0xFF and content[1] >= 0x80)):
        raise Bad(f"{what}: INTEGER is not minimally encoded")
    return int.from_bytes(content, "big", signed=True)


def d_bool(content, what):
    if content == b"\xff":
        return True
    if content == b"\x00":
        return False
    raise Bad(f"{what}: BOOLEAN content {content.hex()} is neither 00 nor FF")


def d_str(content, what):
    try:
        content.decode("utf-8")
    except UnicodeDecodeError:
        raise Bad(f"{what}: LDAPString is not UTF-8") from None
    return content


def d_result(c: Cur):
    code = d_int(c.take(U, False, 10, "resultCode"), "resultCode")
    matched = d_str(c.take(U, False, 4, "matchedDN"), "matchedDN")
    diag = d_str(c.take(U, False, 4, "diagnosticMessage"), "diagnosticMessage")
    refs = c.maybe(C, True, 3)
    out = []
    if refs is not None:
        rc = Cur(refs)
        uris = []
        while rc.more():
            uris.append(d_str(rc.take(U, False, 4, "referral uri"), "uri"))
        out = [uris]
    return [code, matched, diag, out]


def d_filter(k):
    cls, cons, num, content = k
    if cls != C:
        raise Bad(f"Filter: expected a context tag, found class {cls}")
    if num in (0, 1):
        if not cons:
            raise Bad("and/or must be constructed")
        return [num, [d_filter(x) for x in content]]
    if num == 2:
        if not cons:
            raise Bad("not must be constructed")
        if len(content) != 1:
            raise Bad("not: exactly one filter expected")
        return [2, d_filter(content[0])]
    if num in (3, 5, 6, 8):
        if not cons:
            raise Bad("AttributeValueAssertion must be constructed")
        c = Cur(content)
        a = d_str(c.take(U, False, 4, "attributeDesc"), "attributeDesc")
        v = c.take(U, False, 4, "assertionValue")
        c.end("AttributeValueAssertion")
        return [num, a, v]
    if num == 4:
        if not cons:
            raise Bad("SubstringFilter must be constructed")
        c = Cur(content)
        a = d_str(c.take(U, False, 4, "type"), "type")
        subs = Cur(c.take(U, True, 16, "substrings"))
        c.end("SubstringFilter")
        ini, anys, fin = [], [], []
        stage = 0
        while subs.more():
            x = subs.peek()
            if x[0] != C or x[1]:
                raise Bad("substring choice must be a primitive context tag")
            if x[2] == 0 and stage == 0 and not ini:
                ini = [x[3]]
                stage = 1
            elif x[2] == 1 and stage <= 1:
                anys.append(x[3])
                stage = 1
            elif x[2] == 2 and not fin:
                fin = [x[3]]
                stage = 2
            else:
                raise Bad(f"substrings: element [{x[2]}] out of place")
            subs.i += 1
        return [4, a, ini, anys, fin]
    if num == 7:
        if cons:
            raise Bad("present must be primitive")
        return [7, d_str(content, "present")]
    if num == 9:
        if not cons:
            raise Bad("MatchingRuleAssertion must be constructed")
        c = Cur(content)
        rule = c.maybe(C, False, 1)
        attr = c.maybe(C, False, 2)
        v = c.take(C, False, 3, "matchValue")
        dn = c.maybe(C, False, 4)
        c.end("MatchingRuleAssertion")
        dnv = False
        if dn is not None:
            dnv = d_bool(dn, "dnAttributes")
            if not dnv:
                raise Bad("dnAttributes DEFAULT FALSE must be omitted")
        return [9, [d_str(rule, "matchingRule")] if rule is not None else [], [d_str(attr, "type")] if attr is not None else [], v, dnv]
    raise Bad(f"Filter: unknown choice [{num}]")


def d_op(k):
    cls, cons, num, content = k
    if cls != A:
        raise Bad("protocolOp must have an APPLICATION tag")
    if num == 2:
        if cons:
            raise Bad("UnbindRequest is [APPLICATION 2] NULL: primitive form required, found the constructed bit set")
        if content != b"":
            raise Bad("UnbindRequest NULL must be empty")
        return [2]
    if not cons:
        raise Bad(f"protocolOp [APPLICATION {num}] must be constructed")
    c = Cur(content)
    if num == 0:
        version = d_int(c.take(U, False, 2, "version"), "version")
        name = d_str(c.take(U, False, 4, "name"), "name")
        a = c.peek()
        if a is None:
            raise Bad("authentication missing")
        if a[:3] == (C, False, 0):
            cred = [0, d_str(a[3], "simple")]
        elif a[:3] == (C, True, 3):
            sc = Cur(a[3])
            mech = d_str(sc.take(U, False, 4, "mechanism"), "mechanism")
            creds = sc.maybe(U, False, 4)
            sc.end("SaslCredentials")
            cred = [1, mech, [creds] if creds is not None else []]
        else:
            raise Bad(f"AuthenticationChoice: unexpected {a[:3]}")
        c.i += 1
        c.end("BindRequest")
        return [0, version, name, cred]
    if num == 1:
        r = d_result(c)
        sasl = c.maybe(C, False, 7)
        c.end("BindResponse")
        return [1, r, [sasl] if sasl is not None else []]
    if num == 3:
        base = d_str(c.take(U, False, 4, "baseObject"), "baseObject")
        scope = d_int(c.take(U, False, 10, "scope"), "scope")
        deref = d_int(c.take(U, False, 10, "derefAliases"), "derefAliases")
        size = d_int(c.take(U, False, 2, "sizeLimit"), "sizeLimit")
        time = d_int(c.take(U, False, 2, "timeLimit"), "timeLimit")
        types = d_bool(c.take(U, False, 1, "typesOnly"), "typesOnly")
        f = c.peek()
        if f is None:
            raise Bad("filter missing")
        c.i += 1
        flt = d_filter(f)
        attrs = Cur(c.take(U, True, 16, "attributes"))
        c.end("SearchRequest")
        al = []
        while attrs.more():
            al.append(d_str(attrs.take(U, False, 4, "selector"), "selector"))
        return [3, base, scope, deref, size, time, types, flt, al]
    if num == 4:
        name = d_str(c.take(U, False, 4, "objectName"), "objectName")
        attrs = Cur(c.take(U, True, 16, "attributes"))
        c.end("SearchResultEntry")
        al = []
        while attrs.more():
            pa = Cur(attrs.take(U, True, 16, "PartialAttribute"))
            n = d_str(pa.take(U, False, 4, "type"), "type")
            vs = Cur(pa.take(U, True, 17, "vals"))
            pa.end("PartialAttribute")
            vals = []
            while vs.more():
                vals.append(vs.take(U, False, 4, "value"))
            al.append([n, vals])
        return [4, name, al]
    if num == 5:
        r = d_result(c)
        c.end("SearchResultDone")
        return [5, r]
    if num == 19:
        uris = []
        while c.more():
            uris.append(d_str(c.take(U, False, 4, "uri"), "uri"))
        return [6, uris]
    if num == 23:
        name = d_str(c.take(C, False, 0, "requestName"), "requestName")
        v = c.maybe(C, False, 1)
        c.end("ExtendedRequest")
        return [7, name, [v] if v is not None else []]
    if num == 24:
        r = d_result(c)
        n = c.maybe(C, False, 10)
        v = c.maybe(C, False, 11)
        c.end("ExtendedResponse")
        return [8, r, [d_str(n, "responseName")] if n is not None else [], [v] if v is not None else []]
    raise Bad(f"unknown protocolOp [APPLICATION {num}]")


def decode_strict(data: bytes):
    try:
        tree = ber.parse_tree(data)
    except ber.Malformed as e:
        raise Bad(f"not definite-length BER: {e}") from None
    if len(tree) != 1 or tree[0][:3] != (U, True, 16):
        raise Bad("LDAPMessage must be exactly one SEQUENCE")
    c = Cur(tree[0][3])
    mid = d_int(c.take(U, False, 2, "messageID"), "messageID")
    op = c.peek()
    if op is None:
        raise Bad("protocolOp missing")
    c.i += 1
    o = d_op(op)
    controls = []
    cs = c.maybe(C, True, 0)
    if cs is not None:
        cc = Cur(cs)
        while cc.more():
            one = Cur(cc.take(U, True, 16, "Control"))
            oid = d_str(one.take(U, False, 4, "controlType"), "controlType")
            crit = one.maybe(U, False, 1)
            critv = False
            if crit is not None:
                critv = d_bool(crit, "criticality")
                if not critv:
                    raise Bad("criticality DEFAULT FALSE must be omitted")
            val = one.maybe(U, False, 4)
            one.end("Control")
            controls.append([0, oid, critv, [val] if val is not None else []])
        if not controls:
            raise Bad("Controls present but empty")
    c.end("LDAPMessage")
    return [mid, o, controls]
