"""RFC 4512 section 4.1 description grammars (object class, attribute type, DIT content rule):
an independent reference parser and a sentence generator, written from the ABNF.  Values are
plain dicts of Python values (str / list / bool / None / int / dict)."""
from __future__ import annotations

import re


class NotASentence(Exception):
    pass


KEY = "abcdefghijklmnopqrstuvwxyzABCDEFGHIJKLMNOPQRSTUVWXYZ0123456789-"
ALPHA = KEY[:52]


def is_descr(s):
    return len(s) >= 1 and s[0] in ALPHA and all(c in KEY for c in s[1:])


def is_number(s):
    return s == "0" or (len(s) >= 1 and s[0] in "123456789" and all(c in "0123456789" for c in s[1:]))


def is_numericoid(s):
    p = s.split(".")
    return len(p) >= 2 and all(is_number(x) for x in p)


class P:
    def __init__(self, s, ad_quoted_syntax=True):
        self.s = s
        self.i = 0
        self.ad = ad_quoted_syntax

    def eof(self):
        return self.i >= len(self.s)

    def peek(self, n=1):
        return self.s[self.i : self.i + n]

    def lit(self, t):
        if self.s[self.i : self.i + len(t)] != t:
            raise NotASentence(f"expected {t!r} at {self.i}")
        self.i += len(t)

    def wsp(self):
        while self.peek() == " ":
            self.i += 1

    def sp(self):
        if self.peek() != " ":
            raise NotASentence(f"expected SP at {self.i}")
        self.wsp()

    def word(self, alphabet):
        j = self.i
        while j < len(self.s) and self.s[j] in alphabet:
            j += 1
        w = self.s[self.i : j]
        self.i = j
        return w

    def numericoid(self):
        w = self.word("0123456789.")
        if not is_numericoid(w):
            raise NotASentence(f"bad numericoid {w!r}")
        return w

    def oid(self):
        w = self.word(KEY + ".")
        if not (is_descr(w) or is_numericoid(w)):
            raise NotASentence(f"bad oid {w!r}")
        return w

    def oids(self):
        if self.peek() == "(":
            self.i += 1
            self.wsp()
            out = [self.oid()]
            while True:
                save = self.i
                self.wsp()
                if self.peek() == "$":
                    self.i += 1
                    self.wsp()
                    out.append(self.oid())
                else:
                    self.i = save
                    break
            self.wsp()
            self.lit(")")
            return out
        return [self.oid()]

    def qdescr(self):
        self.lit("'")
        w = self.word(KEY)
        if not is_descr(w):
            raise NotASentence("bad descr")
        self.lit("'")
        return w

    def qdescrs(self):
        if self.peek() == "(":
            self.i += 1
            self.wsp()
            out = []
            if self.peek() == "'":
                out.append(self.qdescr())
                while True:
                    save = self.i
                    if self.peek() == " ":
                        self.wsp()
                        if self.peek() == "'":
                            out.append(self.qdescr())
                            continue
                    self.i = save
                    break
            self.wsp()
            self.lit(")")
            return out
        return [self.qdescr()]

    def qdstring(self):
        self.lit("'")
        out = []
        while True:
            if self.eof():
                raise NotASentence("unterminated qdstring")
            c = self.peek()
            if c == "'":
                break
            if c == "\\":
                e = self.peek(3)
                if e == "\\27":
                    out.append("'")
                elif e in ("\\5c", "\\5C"):
                    out.append("\\")
                else:
                    raise NotASentence("bad escape in qdstring")
                self.i += 3
            else:
                out.append(c)
                self.i += 1
        if not out:
            raise NotASentence("empty dstring")
        self.lit("'")
        return "".join(out)

    def qdstrings(self):
        if self.peek() == "(":
            self.i += 1
            self.wsp()
            out = []
            if self.peek() == "'":
                out.append(self.qdstring())
                while True:
                    save = self.i
                    if self.peek() == " ":
                        self.wsp()
                        if self.peek() == "'":
                            out.append(self.qdstring())
                            continue
                    self.i = save
                    break
            self.wsp()
            self.lit(")")
            return out
        return [self.qdstring()]

    def opt_kw(self, kw):
        """[ SP kw ] -- returns True and consumes when present."""
        save = self.i
        if self.peek() == " ":
            self.wsp()
            if self.s[self.i : self.i + len(kw)] == kw and not (self.s[self.i + len(kw) : self.i + len(kw) + 1] in KEY and self.s[self.i + len(kw) : self.i + len(kw) + 1] != ""):
                self.i += len(kw)
                return True
        self.i = save
        return False

    def extensions(self):
        ext = {}
        while True:
            save = self.i
            if self.peek() == " ":
                self.wsp()
                if self.peek(2) in ("X-", "x-"):
                    self.i += 2
                    k = self.word(ALPHA + "-_")
                    if not k:
                        raise NotASentence("empty xstring")
                    self.sp()
                    ext[k] = self.qdstrings()
                    continue
            self.i = save
            break
        return ext

    def common_head(self):
        self.lit("(")
        self.wsp()
        v = {"oid": self.numericoid(), "names": [], "description": None, "obsolete": False}
        if self.opt_kw("NAME"):
            self.sp()
            v["names"] = self.qdescrs()
        if self.opt_kw("DESC"):
            self.sp()
            v["description"] = self.qdstring()
        if self.opt_kw("OBSOLETE"):
            v["obsolete"] = True
        return v

    def tail(self, v):
        v["extensions"] = self.extensions()
        self.wsp()
        self.lit(")")
        return v

    def object_class(self):
        v = self.common_head()
        v.update(super_types=[], kind="STRUCTURAL", must=[], may=[])
        if self.opt_kw("SUP"):
            self.sp()
            v["super_types"] = self.oids()
        for k in ("ABSTRACT", "STRUCTURAL", "AUXILIARY"):
            if self.opt_kw(k):
                v["kind"] = k
                break
        if self.opt_kw("MUST"):
            self.sp()
            v["must"] = self.oids()
        if self.opt_kw("MAY"):
            self.sp()
            v["may"] = self.oids()
        return self.tail(v)

    def attribute_type(self):
        v = self.common_head()
        v.update(super_type=None, equality=None, ordering=None, substrings=None, syntax=None, syntax_length=None,
                 single_value=False, collective=False, no_user_modification=False, usage="userApplications")
        for kw, f in (("SUP", "super_type"), ("EQUALITY", "equality"), ("ORDERING", "ordering"), ("SUBSTR", "substrings")):
            if self.opt_kw(kw):
                self.sp()
                v[f] = self.oid()
        if self.opt_kw("SYNTAX"):
            self.sp()
            quoted = self.ad and self.peek() == "'"
            if quoted:
                self.i += 1
            v["syntax"] = self.numericoid()
            if self.peek() == "{":
                self.i += 1
                n = self.word("0123456789")
                if not is_number(n):
                    raise NotASentence("bad len")
                v["syntax_length"] = int(n)
                self.lit("}")
            if quoted:
                self.lit("'")
        for kw, f in (("SINGLE-VALUE", "single_value"), ("COLLECTIVE", "collective"), ("NO-USER-MODIFICATION", "no_user_modification")):
            if self.opt_kw(kw):
                v[f] = True
        if self.opt_kw("USAGE"):
            self.sp()
            for u in ("userApplications", "directoryOperation", "distributedOperation", "dSAOperation"):
                if self.s[self.i : self.i + len(u)] == u:
                    self.i += len(u)
                    v["usage"] = u
                    break
            else:
                raise NotASentence("bad usage")
        return self.tail(v)

    def dit_content_rule(self):
        v = self.common_head()
        v.update(aux=[], must=[], may=[], never=[])
        for kw, f in (("AUX", "aux"), ("MUST", "must"), ("MAY", "may"), ("NOT", "never")):
            if self.opt_kw(kw):
                self.sp()
                v[f] = self.oids()
        return self.tail(v)


def parse(kind, s):
    p = P(s)
    v = getattr(p, kind)()
    if not p.eof():
        raise NotASentence("trailing data")
    return v


# ------------------------------------------------------------------ generation
def g_descr(rng):
    n = rng.choice([1, 2, 6, 14])
    return rng.choice(ALPHA) + "".join(rng.choice(KEY) for _ in range(n - 1))


def g_numericoid(rng):
    if rng.random() < 0.04:
        # UUID-derived OIDs (X.667): one arc of up to 39 digits, and longer ones
        return "2.25." + rng.choice([str(2**128 - 1), "329800735698586629295641978511506172918", "1" + "0" * 38, "9" * 45, str(rng.getrandbits(127))])
    return ".".join(rng.choice(["0", "1", "2", "5", "10", "840", "113556", str(rng.randint(0, 99999))]) for _ in range(rng.choice([2, 3, 4, 8])))


def g_oid(rng):
    return g_descr(rng) if rng.random() < 0.6 else g_numericoid(rng)


def g_text(rng):
    r = rng.random()
    if r < 0.4:
        return "".join(rng.choice("abc XYZ-_019.,;:$(){}|/") for _ in range(rng.randint(1, 12)))
    if r < 0.75:
        return "".join(rng.choice(["'", "\\", "\\27", "\\5c", "\\5C", "'", "a", " ", "|", "27", "5c", "\\\\", "''"]) for _ in range(rng.randint(1, 6)))
    if r < 0.9:
        return rng.choice(["é", "中文 text", "\U0001f600", "ß'\\", "　x", "\x7f", "tab\there", "nl\nhere",
                           # line structure inside a value (LDIF-style folding, continuation lines) is data here
                           "runs f(x) X-hook () when added", ") X-a ( )", " X-foo ", " X-foo (", "( 'x' ) X-b 'c'", "see X-SUBST (notes)", "plot x-axis (time)", "then X-A 'b'", "NAME 'x' DESC 'y'", "a ) X-B ( c", "Summary:\n indented detail", "a\r\n b", "x\n\n  y", "\n ", " \n", "line1\r\nline2"])
    return "".join(chr(rng.choice([rng.randint(1, 0x7F), rng.randint(0x80, 0x7FF), rng.randint(0x800, 0xD7FF), rng.randint(0x10000, 0x10FFFF)])) for _ in range(rng.randint(1, 8)))


def g_oidlist(rng):
    return [g_oid(rng) for _ in range(rng.choice([0, 0, 1, 1, 2, 4]))]


def g_ext(rng):
    d = {}
    for _ in range(rng.choice([0, 0, 1, 2, 3])):
        k = "".join(rng.choice(ALPHA + "-_") for _ in range(rng.choice([1, 3, 8])))
        d[k] = [g_text(rng) for _ in range(rng.choice([1, 1, 1, 0, 2, 3]))]
    return d


def g_common(rng):
    return {
        "oid": g_numericoid(rng),
        "names": [g_descr(rng) for _ in range(rng.choice([0, 1, 1, 2, 3]))],
        "description": g_text(rng) if rng.random() < 0.6 else None,
        "obsolete": rng.random() < 0.3,
        "extensions": g_ext(rng),
    }


def g_value(rng, kind):
    v = g_common(rng)
    if kind == "object_class":
        v.update(super_types=g_oidlist(rng), kind=rng.choice(["ABSTRACT", "STRUCTURAL", "AUXILIARY"]), must=g_oidlist(rng), may=g_oidlist(rng))
    elif kind == "attribute_type":
        o = lambda: g_oid(rng) if rng.random() < 0.4 else None  # noqa: E731
        syn = g_numericoid(rng) if rng.random() < 0.6 else None
        v.update(super_type=o(), equality=o(), ordering=o(), substrings=o(), syntax=syn,
                 syntax_length=(rng.choice([0, 1, 64, 32768, 10**12]) if syn and rng.random() < 0.5 else None),
                 single_value=rng.random() < 0.3, collective=rng.random() < 0.2, no_user_modification=rng.random() < 0.2,
                 usage=rng.choice(["userApplications", "directoryOperation", "distributedOperation", "dSAOperation"]))
    else:
        v.update(aux=g_oidlist(rng), must=g_oidlist(rng), may=g_oidlist(rng), never=g_oidlist(rng))
    return v


def sentence(rng, kind, v, ad_syntax=False, lower_x=False):
    """A sentence of the grammar denoting v, with random spacing / list forms / escape case."""
    def SP():
        return " " * rng.choice([1, 1, 1, 2, 3, 5])

    def WSP():
        return " " * rng.choice([0, 0, 1, 2])

    def qd(s):
        out = []
        for c in s:
            if c == "'":
                out.append("\\27")
            elif c == "\\":
                out.append(rng.choice(["\\5c", "\\5C"]))
            else:
                out.append(c)
        return "'" + "".join(out) + "'"

    def oids(l):
        if len(l) == 1 and rng.random() < 0.6:
            return l[0]
        return "(" + WSP() + (WSP() + "$" + WSP()).join(l) + WSP() + ")"

    def qdescrs(l):
        if len(l) == 1 and rng.random() < 0.6:
            return "'" + l[0] + "'"
        return "(" + WSP() + SP().join("'" + x + "'" for x in l) + WSP() + ")"

    def qdstrings(l):
        if len(l) == 1 and rng.random() < 0.6:
            return qd(l[0])
        return "(" + WSP() + SP().join(qd(x) for x in l) + WSP() + ")"

    s = "(" + WSP() + v["oid"]
    if v["names"] or rng.random() < 0.05:
        s += SP() + "NAME" + SP() + qdescrs(v["names"])
    if v["description"] is not None:
        s += SP() + "DESC" + SP() + qd(v["description"])
    if v["obsolete"]:
        s += SP() + "OBSOLETE"
    if kind == "object_class":
        if v["super_types"]:
            s += SP() + "SUP" + SP() + oids(v["super_types"])
        if v["kind"] != "STRUCTURAL" or rng.random() < 0.5:
            s += SP() + v["kind"]
        if v["must"]:
            s += SP() + "MUST" + SP() + oids(v["must"])
        if v["may"]:
            s += SP() + "MAY" + SP() + oids(v["may"])
    elif kind == "attribute_type":
        for kw, f in (("SUP", "super_type"), ("EQUALITY", "equality"), ("ORDERING", "ordering"), ("SUBSTR", "substrings")):
            if v[f] is not None:
                s += SP() + kw + SP() + v[f]
        if v["syntax"] is not None:
            body = v["syntax"] + ("{%d}" % v["syntax_length"] if v["syntax_length"] is not None else "")
            s += SP() + "SYNTAX" + SP() + ("'" + body + "'" if ad_syntax else body)
        for kw, f in (("SINGLE-VALUE", "single_value"), ("COLLECTIVE", "collective"), ("NO-USER-MODIFICATION", "no_user_modification")):
            if v[f]:
                s += SP() + kw
        if v["usage"] != "userApplications" or rng.random() < 0.3:
            s += SP() + "USAGE" + SP() + v["usage"]
    else:
        for kw, f in (("AUX", "aux"), ("MUST", "must"), ("MAY", "may"), ("NOT", "never")):
            if v[f]:
                s += SP() + kw + SP() + oids(v[f])
    for k, vals in v["extensions"].items():
        s += SP() + ("x-" if lower_x else "X-") + k + SP() + qdstrings(vals)
    return s + WSP() + ")"
