"""Reference parser / sentence generator for RFC 4515 string filters, written from the ABNF of
RFC 4515 section 3 and RFC 4512 section 1.4/2.5 -- independent of the library and of the model.
Trees are in the neutral list form of lib/msgs.py (attributes as UTF-8 octets)."""
from __future__ import annotations

import re


class NotASentence(Exception):
    pass


ALPHA = b"abcdefghijklmnopqrstuvwxyzABCDEFGHIJKLMNOPQRSTUVWXYZ"
DIGIT = b"0123456789"
KEYCHAR = ALPHA + DIGIT + b"-"
HEX = b"0123456789abcdefABCDEF"


def is_descr(b: bytes) -> bool:
    return len(b) >= 1 and b[0] in ALPHA and all(c in KEYCHAR for c in b[1:])


def is_number(b: bytes) -> bool:
    return b == b"0" or (len(b) >= 1 and b[0] in b"123456789" and all(c in DIGIT for c in b[1:]))


def is_numericoid(b: bytes, min_arcs=2) -> bool:
    parts = b.split(b".")
    return len(parts) >= min_arcs and all(is_number(p) for p in parts)


def is_oid(b: bytes, min_arcs=2) -> bool:
    return is_descr(b) or is_numericoid(b, min_arcs)


def is_attr_description(b: bytes, min_arcs=2) -> bool:
    parts = b.split(b";")
    if not is_oid(parts[0], min_arcs):
        return False
    return all(len(o) >= 1 and all(c in KEYCHAR for c in o) for o in parts[1:])


def utf8_ok(b: bytes) -> bool:
    try:
        b.decode("utf-8")
        return True
    except UnicodeDecodeError:
        return False


def decode_value(v: bytes) -> bytes:
    """valueencoding = 0*(normal / escaped)"""
    out = bytearray()
    raw = bytearray()
    i = 0
    while i < len(v):
        c = v[i]
        if c == 0x5C:
            if i + 2 >= len(v) + 0 and not (i + 2 < len(v) + 1):
                raise NotASentence("truncated escape")
            h = v[i + 1 : i + 3]
            if len(h) != 2 or h[0] not in HEX or h[1] not in HEX:
                raise NotASentence("bad escape")
            if not utf8_ok(bytes(raw)):
                raise NotASentence("raw octets are not UTF-8")
            out += raw
            raw = bytearray()
            out.append(int(h, 16))
            i += 3
            continue
        if c in (0x00, 0x28, 0x29, 0x2A):
            raise NotASentence(f"unescaped special {c:#x} in value")
        raw.append(c)
        i += 1
    if not utf8_ok(bytes(raw)):
        raise NotASentence("raw octets are not UTF-8")
    out += raw
    return bytes(out)


class P:
    def __init__(self, s: bytes, min_arcs=2, rule_options=False):
        self.s = s
        self.i = 0
        self.min_arcs = min_arcs
        self.rule_options = rule_options

    def peek(self):
        return self.s[self.i : self.i + 1]

    def expect(self, b):
        if self.s[self.i : self.i + len(b)] != b:
            raise NotASentence(f"expected {b!r} at {self.i}")
        self.i += len(b)

    def filter(self):
        self.expect(b"(")
        c = self.peek()
        if c in (b"&", b"|"):
            self.i += 1
            fs = []
            while self.peek() == b"(":
                fs.append(self.filter())
            if not fs:
                raise NotASentence("empty filterlist")
            r = [0 if c == b"&" else 1, fs]
        elif c == b"!":
            self.i += 1
            r = [2, self.filter()]
        else:
            r = self.item()
        self.expect(b")")
        return r

    def value_until_rparen(self):
        j = self.s.find(b")", self.i)
        if j < 0:
            raise NotASentence("no closing paren")
        v = self.s[self.i : j]
        self.i = j
        return v

    def rule_ok(self, r):
        return is_attr_description(r, self.min_arcs) if self.rule_options else is_oid(r, self.min_arcs)

    def item(self):
        # attribute description (may be empty for the second extensible form)
        j = self.i
        while j < len(self.s) and self.s[j] in KEYCHAR + b".;":
            j += 1
        attr = self.s[self.i : j]
        self.i = j
        c = self.peek()
        if c == b":":
            # extensible
            dn = False
            rule = None
            if self.s[self.i : self.i + 4] == b":dn:":
                dn = True
                self.i += 3
            if self.s[self.i : self.i + 2] != b":=":
                self.expect(b":")
                k = self.i
                while k < len(self.s) and self.s[k] in KEYCHAR + b".;":
                    k += 1
                rule = self.s[self.i : k]
                self.i = k
                if not self.rule_ok(rule):
                    raise NotASentence("bad matching rule")
            self.expect(b":=")
            if attr:
                if not is_attr_description(attr, self.min_arcs):
                    raise NotASentence("bad attribute description")
            elif rule is None:
                raise NotASentence("extensible match without attribute needs a matching rule")
            v = decode_value(self.value_until_rparen())
            return [9, [rule] if rule is not None else [], [attr] if attr else [], v, dn]
        if not is_attr_description(attr, self.min_arcs):
            raise NotASentence("bad attribute description")
        for op, k in ((b"~=", 8), (b">=", 5), (b"<=", 6)):
            if self.s[self.i : self.i + 2] == op:
                self.i += 2
                return [k, attr, decode_value(self.value_until_rparen())]
        self.expect(b"=")
        raw = self.value_until_rparen()
        if raw == b"*":
            return [7, attr]
        if b"*" in raw:
            parts = raw.split(b"*")
            ini = decode_value(parts[0]) if parts[0] else None
            fin = decode_value(parts[-1]) if parts[-1] else None
            anys = []
            for p in parts[1:-1]:
                if not p:
                    raise NotASentence("empty 'any' component")
                anys.append(decode_value(p))
            return [4, attr, [] if ini is None else [ini], anys, [] if fin is None else [fin]]
        return [3, attr, decode_value(raw)]


def parse(s: bytes, min_arcs=2, rule_options=False):
    p = P(s, min_arcs, rule_options)
    r = p.filter()
    if p.i != len(s):
        raise NotASentence("trailing data")
    return r


# ------------------------------------------------------------------ sentence generation
def enc_value(rng, v: bytes) -> bytes:
    """One of the many valueencodings of v."""
    out = bytearray()
    i = 0
    while i < len(v):
        c = v[i]
        special = c in (0x00, 0x28, 0x29, 0x2A, 0x5C)
        if c < 0x80 and not special and rng.random() < 0.8:
            out.append(c)
            i += 1
            continue
        if c >= 0x80 and rng.random() < 0.5:
            # emit a whole valid UTF-8 sequence raw when there is one here
            for n in (2, 3, 4):
                seq = v[i : i + n]
                if len(seq) == n and utf8_ok(seq):
                    out += seq
                    i += n
                    break
            else:
                out += b"\\" + (b"%02x" % c if rng.random() < 0.5 else b"%02X" % c)
                i += 1
            continue
        out += b"\\" + (b"%02x" % c if rng.random() < 0.5 else b"%02X" % c)
        i += 1
    return bytes(out)


def sentence(rng, f, spaces=0.0) -> bytes:
    def sp():
        return b" " * rng.choice([1, 1, 2, 3]) if rng.random() < spaces else b""

    k = f[0]
    if k in (0, 1):
        return b"(" + sp() + (b"&" if k == 0 else b"|") + sp() + b"".join(sentence(rng, x, spaces) + sp() for x in f[1]) + b")"
    if k == 2:
        return b"(" + sp() + b"!" + sp() + sentence(rng, f[1], spaces) + sp() + b")"
    if k in (3, 5, 6, 8):
        op = {3: b"=", 5: b">=", 6: b"<=", 8: b"~="}[k]
        return b"(" + sp() + f[1] + op + enc_value(rng, f[2]) + b")"
    if k == 7:
        return b"(" + sp() + f[1] + b"=*)"
    if k == 4:
        parts = [enc_value(rng, f[2][0]) if f[2] else b""] + [enc_value(rng, a) for a in f[3]] + [enc_value(rng, f[4][0]) if f[4] else b""]
        return b"(" + sp() + f[1] + b"=" + b"*".join(parts) + b")"
    hdr = (f[2][0] if f[2] else b"") + (b":dn" if f[4] else b"") + ((b":" + f[1][0]) if f[1] else b"")
    return b"(" + sp() + hdr + b":=" + enc_value(rng, f[3]) + b")"


KEYWORDISH = [b"dn", b"dnQualifier", b"dnSubtreeMatch", b"dnOneLevelMatch", b"DN", b"dnx", b"d", b"caseIgnoreMatch",
              b"objectClass", b"x-dn", b"dn-1"]


def g_descr(rng) -> bytes:
    if rng.random() < 0.12:
        return rng.choice(KEYWORDISH)
    n = rng.choice([1, 2, 5, 12])
    return bytes([rng.choice(ALPHA)]) + bytes(rng.choice(KEYCHAR) for _ in range(n - 1))


def g_numericoid(rng) -> bytes:
    arcs = rng.choice([2, 2, 3, 6, 10])
    return b".".join(rng.choice([b"0", b"1", b"2", b"9", b"10", b"840", b"113556", str(rng.randint(0, 10**6)).encode()]) for _ in range(arcs))


def g_attr(rng, options=True) -> bytes:
    base = g_descr(rng) if rng.random() < 0.7 else g_numericoid(rng)
    if options and rng.random() < 0.3:
        for _ in range(rng.choice([1, 1, 2])):
            base += b";" + bytes(rng.choice(KEYCHAR) for _ in range(rng.choice([1, 3, 7])))
    return base


def g_value(rng, allow_empty=True) -> bytes:
    r = rng.random()
    if r < 0.1 and allow_empty:
        return b""
    if r < 0.1025:
        # long values (certificates, photos, SIDs): plain, all-escaped, and mixed, around the sizes scanners block at
        n = rng.choice([500, 683, 1024, 2047, 2048, 2049, 2500])
        kind = rng.random()
        if kind < 0.4:
            return bytes([rng.choice(b"abcdefghij0123456789")]) * n
        if kind < 0.7:
            return bytes(rng.choice([0x30, 0x82, 0x00, 0xFF, 0x2A, 0x28, 0x5C]) for _ in range(n))
        return bytes(rng.getrandbits(8) for _ in range(n))
    if r < 0.5:
        return bytes(rng.choice(b"abcXYZ019 _-=:;,.<>~!&|") for _ in range(rng.randint(1, 8)))
    if r < 0.75:
        return bytes(rng.choice([0, 0x28, 0x29, 0x2A, 0x5C, 0x5C, 0x0A, 0x7F, 0x80, 0xFF, 0xC3, 0xA9, 0x61, 0x3D, 0x3A]) for _ in range(rng.randint(1, 6)))
    if r < 0.9:
        return rng.choice(["é", "中文", "\U0001f600", "a é b", "߿ࠀ"]).encode() * rng.choice([1, 2])
    return bytes(rng.getrandbits(8) for _ in range(rng.randint(1, 10)))


def g_tree(rng, depth: int):
    k = rng.choice([0, 1, 2, 3, 3, 4, 4, 5, 6, 7, 8, 9, 9] if depth > 0 else [3, 4, 5, 6, 7, 8, 9])
    if k in (0, 1):
        return [k, [g_tree(rng, depth - 1) for _ in range(rng.choice([1, 1, 2, 3, 4]))]]
    if k == 2:
        return [2, g_tree(rng, depth - 1)]
    if k in (3, 5, 6, 8):
        return [k, g_attr(rng), g_value(rng)]
    if k == 7:
        return [7, g_attr(rng)]
    if k == 4:
        while True:
            ini = [g_value(rng, False)] if rng.random() < 0.5 else []
            anys = [g_value(rng, False) for _ in range(rng.choice([0, 0, 1, 2, 3]))]
            fin = [g_value(rng, False)] if rng.random() < 0.5 else []
            if ini or anys or fin:
                return [4, g_attr(rng), ini, anys, fin]
    while True:
        rule = [g_descr(rng) if rng.random() < 0.5 else g_numericoid(rng)] if rng.random() < 0.6 else []
        attr = [g_attr(rng)] if rng.random() < 0.7 else []
        dn = rng.random() < 0.4
        if rule == [b"dn"] and not dn:
            continue
        if attr or rule:
            return [9, rule, attr, g_value(rng), dn]
