"""C01 -- every LDAP message survives encode -> decode unchanged."""
from __future__ import annotations

import copy

from lib import msgs
from lib.framework import Prop, canon, res_of
from oracle import ber


def paged_value(size, cookie):
    return ber.tlv(0, True, 16, ber.tlv(0, False, 2, ber.enc_int(size)) + ber.tlv(0, False, 4, cookie))


def norm_control(c):
    if c[0] == 1:
        return [1, c[1], c[2], c[3], [paged_value(c[2], c[3])]]
    return c


def norm_msg(m):
    return [m[0], m[1], [norm_control(c) for c in m[2]]]


def known_oid_generic(m):
    return any(c[0] == 0 and c[1] in (msgs.OID_PAGED, msgs.OID_SHOW_DELETED, msgs.OID_SHOW_DEACT) for c in m[2])


def decode(data: bytes):
    from sansldap._messages import unpack_ldap_message
    from sansldap.asn1 import ASN1Reader

    r = ASN1Reader(data)
    m = unpack_ldap_message(r, msgs.packing_options())
    return m, r.get_remaining_data()


class C01(Prop):
    id = "C01"
    binary_cases = True
    prop_file = "Props/C01"
    quick_n = 2500
    thorough_n = 60000
    rule = (
        "seeded structured message values of all 9 kinds (ids to 2^64 and negative, known and unknown result "
        "codes, empty vs absent optionals, non-ASCII and 127/128/255/256-octet strings, 0-3 controls of all four "
        "forms incl. decoded-style raw values, both credential kinds, filters of all 10 node kinds to depth 6 and "
        "linear depth 60) followed by 0-3 trailing octets; each is packed and unpacked by the implementation and "
        "by the extracted model; non-trivial = has a control, a filter deeper than 1, a field of 127+ octets or an "
        "integer outside 0..127"
    )
    assumptions = [
        "str fields are surrogate-free (what str.encode('utf-8') admits); a generic control carrying a library-known OID is outside the round-trip claim (it IS a control of that type)",
        "dataclass equality is compared field-wise through the public attributes (result codes through .value)",
    ]

    def corpus(self):
        cs = []
        for z in (-65536, -(2**31), 2**31 - 1, 2**63):
            cs.append({"kind": "rt", "msg": [z, [7, b"1.2", []], []], "rest": b""})
        cs.append({"kind": "rt", "msg": [1, [1, [118, b"", b"", []], []], []], "rest": b"\x30"})
        cs.append({"kind": "rt", "msg": [1, [5, [9, b"", b"", [[]]], ], [[1, True, 5, b"c", []]]], "rest": b""})
        cs.append({"kind": "rt", "msg": [2, [3, b"", 2, 0, 0, 0, False, msgs.deep_filter(60), []], []], "rest": b""})
        return cs

    def generate(self, rng, n, tier):
        out = []
        for i in range(n):
            m = msgs.g_msg(rng)
            if rng.random() < 0.15:
                m[2] = [msgs.g_control(rng, decoded=True) for _ in range(rng.randint(1, 3))]
            if rng.random() < 0.02:
                m[2].append([0, rng.choice([msgs.OID_PAGED, msgs.OID_SHOW_DELETED]), False, msgs.opt(msgs.g_octets(rng))])
            rest = bytes(rng.getrandbits(8) for _ in range(rng.choice([0, 0, 1, 3])))
            out.append({"kind": "rt", "msg": m, "rest": rest})
        return out

    def model_requests(self, c):
        return [[102, c["msg"], c["rest"]]]

    def impl_run(self, c):
        def enc():
            return msgs.pack(c["msg"])

        w = res_of(enc)
        if w[0] != 0:
            return [[w, []]]

        def dec():
            m, rest = decode(w[1] + c["rest"])
            return [msgs.r_msg(m), rest]

        return [[w[1], res_of(dec)]]

    def oracle(self, c, ans):
        if ans and ans[0] == "!timeout":
            return "timeout"
        w, r = ans[0]
        if isinstance(w, list):
            return f"encoding a valid message raised code {w[1]}"
        if known_oid_generic(c["msg"]):
            return None
        if r[0] != 0:
            return f"decoding the library's own encoding raised code {r[1]}"
        got, rest = r[1]
        if rest != canon(c["rest"]):
            return "decoder did not consume exactly the encoded message"
        want = canon(norm_msg(c["msg"]))
        if got != want:
            return "decoded message differs from the original"
        # re-encoding the decoded message reproduces the same bytes
        m, _ = decode(bytes.fromhex(w["x"]) + c["rest"])
        again = m.pack(msgs.packing_options())
        if again.hex() != w["x"]:
            return "re-encoding the decoded message gives different bytes"
        return None

    def classify(self, c):
        return msgs.msg_kind(c["msg"])

    def nontrivial(self, c):
        m = c["msg"]
        if m[2]:
            return True
        if not (0 <= m[0] <= 127):
            return True
        if m[1][0] == 3 and msgs.filter_depth(m[1][7]) > 1:
            return True
        return len(msgs.pack(m)) > 140

    def shrink(self, c):
        m = c["msg"]
        if m[2]:
            for i in range(len(m[2])):
                yield {**c, "msg": [m[0], m[1], m[2][:i] + m[2][i + 1 :]]}
        if c["rest"]:
            yield {**c, "rest": b""}
        if m[0] != 1:
            yield {**c, "msg": [1, m[1], m[2]]}


PROP = C01()
