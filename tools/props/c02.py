"""C02 -- message reassembly is independent of how the byte stream is chunked."""
from __future__ import annotations

from lib import msgs, sessions
from lib.framework import canon
from lib.sessions import C_BIND, C_EXT, C_SEARCH, CLIENT, RECV, SERVER
from props.c01 import norm_msg
from props.session_common import CLOSED, SessionProp, X


def chunkings(rng, data: bytes):
    n = len(data)
    r = rng.random()
    if n == 0:
        return [b""]
    if r < 0.2 and n <= 800:
        cuts = list(range(1, n))  # byte by byte
    elif r < 0.2:
        # long streams: byte by byte through the first 64 octets and the last 16 (the extracted model keeps a
        # snapshot per call; thousands of calls on kilobytes of pending data exhaust its memory)
        cuts = list(range(1, 64)) + list(range(n - 16, n))
    elif r < 0.3:
        cuts = [1] if n > 1 else []
    else:
        k = rng.choice([1, 1, 2, 2, 3, 5, 8])
        cuts = sorted({rng.randrange(1, n) for _ in range(k)} if n > 1 else set())
    parts, prev = [], 0
    for c in cuts + [n]:
        parts.append(data[prev:c])
        prev = c
    if rng.random() < 0.3:
        i = rng.randrange(len(parts) + 1)
        parts.insert(i, b"")
    return parts


def peer_lengths(rng, data: bytes, depth=0) -> bytes:
    """Re-encode the length fields of a well-formed stream the way other implementations do (X.690 8.1.3.5 allows
    any number of leading zero octets in the long form; Active Directory sends 30 84 00 00 00 LL)."""
    from oracle import ber

    out, pos = b"", 0
    while pos < len(data):
        cls, cons, num, hl, ln = ber.parse_header(data, pos)
        content = data[pos + hl : pos + hl + ln]
        if cons and depth < 3 and rng.random() < 0.5:
            content = peer_lengths(rng, content, depth + 1)
        form = rng.choice([4, 4, 2, 1, 3, 5, 8, 9, 17]) if (depth == 0 or rng.random() < 0.3) else 0
        out += ber.tlv(cls, cons, num, content, form)
        pos += hl + ln
    return out


class C02(SessionProp):
    id = "C02"
    prop_file = "Props/C02"
    quick_n = 1200
    thorough_n = 30000
    rule = (
        "seeded streams of 1-6 well-formed messages addressed to a client (responses to requests it issued first, "
        "incl. several entries per search) or a server (requests with fresh ids), cut into chunks byte-by-byte, at 1-8 "
        "random positions, after the first octet, with empty chunks inserted; 30% of the streams re-encoded with the zero-padded long-form lengths other servers emit (30 84 00 00 00 LL) and a corpus cutting such a stream at every offset of its first header; the chunked run is compared with the "
        "single delivery on the implementation and with the extracted model; the input bytearray is overwritten after "
        "each receive() and earlier results re-rendered at the end (aliasing clause); non-trivial = 2+ chunks"
    )

    def gen_one(self, rng):
        role = rng.randint(0, 1)
        pre = []
        ms = []
        if role == CLIENT:
            kinds = []
            nreq = rng.randint(1, 3)
            for i in range(nreq):
                if i == 0 and rng.random() < 0.3:
                    pre.append([C_BIND, b"cn=a", [0, b"pw"], []])
                    kinds.append("bind")
                    break  # nothing else may be sent while binding
                elif rng.random() < 0.5:
                    op = msgs.g_op(rng, 3, depth=1)
                    pre.append([C_SEARCH] + op[1:] + [[]])
                    kinds.append("search")
                else:
                    pre.append([C_EXT, rng.choice([b"1.2.3", b"1.3.6.1.4.1.1466.20037"]), [], []])
                    kinds.append("other")
            for i, k in enumerate(kinds, start=1):
                if k == "search":
                    for _ in range(rng.randint(0, 3)):
                        ms.append([i, msgs.g_op(rng, rng.choice([4, 4, 6])), msgs.g_controls(rng)])
                    ms.append([i, msgs.g_op(rng, 5), msgs.g_controls(rng)])
                elif k == "bind":
                    ms.append([i, msgs.g_op(rng, 1), []])
                else:
                    op = msgs.g_op(rng, 8)
                    if op[2] == [msgs.OID_NOTICE]:
                        op[2] = []
                    if rng.random() < 0.5:
                        op[1][0] = 0  # success
                    ms.append([i, op, msgs.g_controls(rng)])
            if rng.random() < 0.5:
                rng.shuffle(ms)
                # keep each search's done last
                done = [m for m in ms if m[1][0] == 5]
                ms = [m for m in ms if m[1][0] != 5] + done
        else:
            n = rng.randint(1, 5)
            mid = 1
            for i in range(n):
                k = rng.choice([3, 7, 7, 3, 0]) if i == 0 else rng.choice([3, 7])
                ms.append([mid, msgs.g_op(rng, k, depth=rng.choice([0, 1, 3])), msgs.g_controls(rng)])
                mid += rng.choice([1, 1, 2])
        if rng.random() < 0.1:
            # an arbitrary (possibly unacceptable) sequence: only agreement of outcome/state is claimed
            ms.append(msgs.g_msg(rng))
        stream = b"".join(msgs.pack(m) for m in ms)
        if rng.random() < 0.3:
            stream = peer_lengths(rng, stream)
        chunks = chunkings(rng, stream)
        return {"role": role, "pre": pre, "msgs": ms, "chunks": chunks, "calls": pre + [[RECV, c] for c in chunks], "meta": None}

    def generate(self, rng, n, tier):
        return [self.gen_one(rng) for _ in range(n)]

    def corpus(self):
        m1 = [1, [7, b"1.2.3", []], []]
        m2 = [2, [3, b"", 2, 0, 0, 0, False, [7, b"objectClass"], []], []]
        m3 = [3, [7, b"1.2.3.4", [b"payload"]], []]
        s = b"".join(msgs.pack(m) for m in (m1, m2, m3))
        out = []
        for chunks in ([s[:1], s[1:]], [bytes([b]) for b in s], [s[:2], s[2:40], s[40:]]):
            out.append({"role": 1, "pre": [], "msgs": [m1, m2, m3], "chunks": chunks, "calls": [[RECV, c] for c in chunks], "meta": None})
        # one message of 64 KiB and more whose last chunk ends exactly on the message boundary
        for size, cuts in ((65536, [30000]), (70000, [1, 69000]), (100000, [50000]), (100000, [40000, 80000]), (65535, [65530])):
            me = [1, [4, b"cn=photo", [[b"jpegPhoto", [b"\x5a" * size]]]], []]
            md = [1, [5, [0, b"", b"", []]], []]
            pm = msgs.pack(me)
            pre = [[C_SEARCH, b"", 2, 0, 0, 0, 0, [7, b"objectClass"], [], []]]
            parts, prev = [], 0
            for cpos in cuts + [len(pm)]:
                parts.append(pm[prev:cpos])
                prev = cpos
            chunks = parts + [msgs.pack(md)]
            out.append({"role": 0, "pre": pre, "msgs": [me, md], "chunks": chunks, "calls": pre + [[RECV, c] for c in chunks], "meta": None})
        # first message to a session that has seen nothing yet, carrying octets that are another protocol's opening
        # (TLS record 16 03 0x - as content, and as length octet 0x16 followed by content 03 0x -, SSLv2, HTTP, SSH):
        # one case per cut position, so that every chunk start is tried
        magics = [bytes([3, 1]) + b"\x00" * 20, bytes([3, 3]) + b"\x01" * 20, bytes([0x16, 3, 1, 0, 5]) + b"hello", bytes([0x16, 3, 3]) + b"\x00" * 19,
                  bytes([0x80, 0x2E, 1, 3, 1]), b"GET / HTTP/1.1\r\n\r\n", b"SSH-2.0-OpenSSH_9.6\r\n"]
        for i, mg in enumerate(magics):
            mm = [1, [0, 3, b"", [1, b"GSSAPI", [mg]]], []] if i % 2 == 0 else [1, [7, b"1.2.3", [mg]], []]
            pm = msgs.pack(mm)
            for cut in range(1, len(pm)):
                chunks = [pm[:cut], pm[cut:]]
                out.append({"role": 1, "pre": [], "msgs": [mm], "chunks": chunks, "calls": [[RECV, c] for c in chunks], "meta": None})
        # the same stream with zero-padded long-form lengths, cut once at every offset
        import random

        p = peer_lengths(random.Random(1), s)
        for cut in range(1, min(len(p), 24)):
            chunks = [p[:cut], p[cut:]]
            out.append({"role": 1, "pre": [], "msgs": [m1, m2, m3], "chunks": chunks, "calls": [[RECV, c] for c in chunks], "meta": None})
        return out

    def impl_run(self, c):
        # the run compared with the model: chunk by chunk
        return [sessions.run_history(c["role"], c["calls"])]

    def oracle(self, c, ans):
        if ans and ans[0] == "!timeout":
            return "timeout"
        import sansldap

        role = c["role"]
        # (a) single delivery
        s1 = sessions.new_session(role)
        for call in c["pre"]:
            sessions.outcome_of(s1, call)
        single = sessions.outcome_of(s1, [RECV, b"".join(c["chunks"])])
        st1 = sessions.probe(s1)[0]
        # (b) chunked delivery with a reused, mutated input buffer
        s2 = sessions.new_session(role)
        for call in c["pre"]:
            sessions.outcome_of(s2, call)
        got_objs = []
        got_render = []
        err = None
        for ch in c["chunks"]:
            buf = bytearray(ch)
            try:
                ms = s2.receive(buf)
            except sansldap.ProtocolError:
                err = "proto"
                break
            except BaseException as e:  # noqa: BLE001
                return f"chunked delivery raised {type(e).__name__}"
            got_objs.extend(ms)
            got_render.extend(canon(msgs.r_msg(m)) for m in ms)
            for i in range(len(buf)):
                buf[i] = 0xAA  # the caller reuses its buffer
        st2 = sessions.probe(s2)[0]
        if single[0] == 3:
            if err:
                return "single delivery succeeds but the chunked delivery raises ProtocolError"
            want = canon(single[1])
            if got_render != want:
                return "chunked delivery returned different messages than the single delivery"
            if st2 != st1:
                return f"final state differs: chunked {st2} vs single {st1}"
            # messages already returned are self-contained values
            again = [canon(msgs.r_msg(m)) for m in got_objs]
            if again != got_render:
                return "a returned message changed after the caller reused its input buffer / later deliveries"
            if len(c["msgs"]) == len(want) and want != canon([norm_msg(m) for m in c["msgs"]]):
                return "returned messages differ from the ones that were encoded"
        elif single[0] == 5:
            if not err:
                return "single delivery raises ProtocolError but the chunked delivery does not"
            if st2 != CLOSED or st1 != CLOSED:
                return "session not CLOSED after the protocol error"
        else:
            return f"single delivery ended with outcome {single}"
        return None

    def classify(self, c):
        return ("client" if c["role"] == 0 else "server") + f"-{min(len(c['chunks']), 9)}chunks"

    def nontrivial(self, c):
        return len(c["chunks"]) >= 2

    def shrink(self, c):
        ch = c["chunks"]
        if len(ch) > 2:
            for i in range(len(ch) - 1):
                merged = ch[:i] + [ch[i] + ch[i + 1]] + ch[i + 2 :]
                yield {**c, "chunks": merged, "calls": c["pre"] + [[RECV, x] for x in merged]}


PROP = C02()
