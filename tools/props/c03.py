"""C03 -- encoded messages are RFC 4511 BER that an independent decoder reads back."""
from __future__ import annotations

from lib import msgs
from lib.framework import Prop, canon, res_of
from oracle import rfc4511
from props.c01 import C01, paged_value


def abs_control(c):
    k = c[0]
    if k == 0:
        return [0, c[1], bool(c[2]), c[3]]
    if k == 1:
        return [0, msgs.OID_PAGED, bool(c[1]), [paged_value(c[2], c[3])]]
    if k == 2:
        return [0, msgs.OID_SHOW_DELETED, bool(c[1]), c[2]]
    return [0, msgs.OID_SHOW_DEACT, bool(c[1]), c[2]]


def abs_msg(m):
    return [m[0], m[1], [abs_control(c) for c in m[2]]]


class C03(C01):
    id = "C03"
    prop_file = "Props/C03"
    level = "proof"
    rule = (
        "the structured message values of C01 (all 9 kinds, every filter choice, all control forms, both credential "
        "choices); the bytes produced by the implementation are (a) compared with the extracted model's encoder and (b) "
        "decoded by an independent strict decoder written from the RFC 4511 ASN.1 module, whose result must equal the "
        "abstract message; non-trivial as in C01"
    )
    assumptions = [
        "SIZE(1..MAX) and value-range subtype constraints (e.g. version 1..127, empty Referral written by the server helpers) are not enforced: the property lists tag/form/length/boolean/default/integer rules",
    ]

    def corpus(self):
        cs = super().corpus()
        cs.append({"kind": "rt", "msg": [0, [2], []], "rest": b""})
        cs.append({"kind": "rt", "msg": [1, [3, b"", 2, 0, 0, 0, False, [9, [b"2.5.13.5"], [b"cn"], b"", False], [b"cn", b"*"]], []], "rest": b""})
        return cs

    def model_requests(self, c):
        # the model's encoder on the message, and the Coq strict RFC decoder (Msg/RfcDecode.v, the
        # subject of theorem C03_strict_decoder_reads_back) on the bytes the implementation produced
        r = res_of(lambda: msgs.pack(c["msg"]))
        return [[100, c["msg"]], [103, r[1] if r[0] == 0 else b""]]

    def impl_run(self, c):
        r = res_of(lambda: msgs.pack(c["msg"]))
        return [r[1], [abs_msg(c["msg"])] if r[0] == 0 else []]

    def finding_key(self, c, what):
        if "UnbindRequest is [APPLICATION 2] NULL" in what:
            return "unbind-constructed"
        if what == "diff" and c["msg"][1][0] == 2:
            return "unbind-constructed"
        return None

    def oracle(self, c, ans):
        if ans and ans[0] == "!timeout":
            return "timeout"
        w = ans[0]
        if not isinstance(w, dict):
            return f"encoding raised code {w}"
        data = bytes.fromhex(w["x"])
        try:
            got = rfc4511.decode_strict(data)
        except rfc4511.Bad as e:
            return f"independent RFC 4511 decoder rejects the encoding: {e}"
        want = abs_msg(c["msg"])
        if canon(got) != canon(want):
            return "independent RFC 4511 decoder recovers a different message"
        return None


PROP = C03()
