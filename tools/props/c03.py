"""C03 -- encoded messages are RFC 4511 BER that an independent decoder reads back."""
from __future__ import annotations

from lib import msgs
from lib.framework import Prop, canon, res_of
from oracle import rfc4511
from props.c01 import C01, paged_value


def abs_control(c):
    k = c[0]
    if k == 0:
        return [0, c[1], bool(c[2]), c[3]]
    if k == 1:
        return [0, msgs.OID_PAGED, bool(c[1]), [paged_value(c[2], c[3])]]
    if k == 2:
        return [0, msgs.OID_SHOW_DELETED, bool(c[1]), c[2]]
    return [0, msgs.OID_SHOW_DEACT, bool(c[1]), c[2]]


def abs_msg(m):
    return [m[0], m[1], [abs_control(c) for c in m[2]]]


def known_oid_generic_(m):
    from props.c01 import known_oid_generic

    return known_oid_generic(m)


def session_one(c):
    """-> None (not expressible / not accepted) | (call, what-or-None)"""
    from lib import sessions as S

    if c.get("relay_input") is not None:
        return None
    m = c["msg"]
    if known_oid_generic_(m):
        return None
    mid, op, ctl = m
    k = op[0]
    try:
        if k in (0, 3, 7):
            if k == 0 and op[1] != 3:
                return None
            s = S.new_session(S.CLIENT)
            call = [S.C_BIND, op[2], op[3], ctl] if k == 0 else [S.C_EXT, op[1], op[2], ctl] if k == 7 else [S.C_SEARCH] + list(op[1:]) + [ctl]
            want_op = op
        elif k in (1, 4, 5, 6, 8) and isinstance(mid, int) and 0 < mid < 2**31:
            if k in (1, 5, 8) and op[1][3] != []:
                return None  # the helpers take no referral list
            s = S.new_session(S.SERVER)
            req = {1: [0, 3, b"", [1, b"GSSAPI", []]], 8: [7, b"1.2", []]}.get(k, [3, b"", 2, 0, 0, 0, False, [7, b"objectClass"], []])
            if S.outcome_of(s, [S.RECV, msgs.pack([mid, req, []])])[0] != 3:
                return None
            call = {1: lambda: [S.S_BINDRESP, mid, op[2], op[1][0], op[1][1], op[1][2], ctl],
                    8: lambda: [S.S_EXTRESP, mid, op[2], op[3], op[1][0], op[1][1], op[1][2], ctl],
                    5: lambda: [S.S_DONE, mid, op[1][0], op[1][1], op[1][2], ctl],
                    4: lambda: [S.S_ENTRY, mid, op[1], op[2], ctl],
                    6: lambda: [S.S_REF, mid, op[1], ctl]}[k]()
            want_op = op
            if k in (1, 5, 8):
                # the helpers always pass referrals=[]: an (empty) Referral element is written, see assumptions
                want_op = [op[0], [op[1][0], op[1][1], op[1][2], [[]]]] + list(op[2:])
        else:
            return None
        o = S.outcome_of(s, call)
        if o[0] != 0:
            return None  # whether a call is accepted is the session properties' question
        data = s.data_to_send()
    except Exception:  # noqa: BLE001
        return None
    what = None
    try:
        got = rfc4511.decode_strict(bytes(data))
        want = abs_msg([o[1], want_op, ctl])
        if canon(got) != canon(want):
            what = f"session helper (call form {S._variant(call)}): the bytes sent denote a different message than the one asked for"
    except rfc4511.Bad as e:
        what = f"session helper: independent RFC 4511 decoder rejects the bytes sent: {e}"
    return call, what


def relay_check(obj):
    """obj came out of the decoder: the bytes produced for it must be strict RFC 4511 of what its fields show."""
    try:
        again = obj.pack(msgs.packing_options())
        shown = abs_msg(msgs.r_msg(obj))
    except Exception as e:  # noqa: BLE001
        return f"relay: packing a message that came out of the decoder raised {type(e).__name__}"
    try:
        got = rfc4511.decode_strict(bytes(again))
    except rfc4511.Bad as e:
        return f"relay: independent RFC 4511 decoder rejects the bytes produced for a received message: {e}"
    if canon(got) != canon(shown):
        return "relay: the bytes produced for a received message denote a different message than its fields show"
    return None


class C03(C01):
    id = "C03"
    prop_file = "Props/C03"
    level = "proof"
    rule = (
        "the structured message values of C01 (all 9 kinds, every filter choice, all control forms, both credential "
        "choices); the bytes produced by the implementation are (a) compared with the extracted model's encoder and (b) "
        "decoded by an independent strict decoder written from the RFC 4511 ASN.1 module, whose result must equal the "
        "abstract message; relay family: each message is also encoded as a peer may (incl. sloppy paged-results values), decoded by the implementation and the returned object packed again - those bytes go through the same strict decoder; session family: every message the helpers can express is sent through LDAPClient / LDAPServer in one of the documented call forms (bind_simple / bind_sasl, enum member or OID string as operation name, defaults left out) and the drained bytes go through the strict decoder; non-trivial as in C01"
    )
    assumptions = [
        "SIZE(1..MAX) and value-range subtype constraints (e.g. version 1..127, empty Referral written by the server helpers) are not enforced: the property lists tag/form/length/boolean/default/integer rules",
    ]

    def corpus(self):
        cs = super().corpus()
        cs.append({"kind": "rt", "msg": [0, [2], []], "rest": b""})
        cs.append({"kind": "rt", "msg": [1, [3, b"", 2, 0, 0, 0, False, [9, [b"2.5.13.5"], [b"cn"], b"", False], [b"cn", b"*"]], []], "rest": b""})
        return cs

    def model_requests(self, c):
        # the model's encoder on the message, and the Coq strict RFC decoder (Msg/RfcDecode.v, the
        # subject of theorem C03_strict_decoder_reads_back) on the bytes the implementation produced
        r = res_of(lambda: msgs.pack(c["msg"]))
        return [[100, c["msg"]], [103, r[1] if r[0] == 0 else b""]]

    def impl_run(self, c):
        r = res_of(lambda: msgs.pack(c["msg"]))
        return [r[1], [abs_msg(c["msg"])] if r[0] == 0 else []]

    def extra_checks(self, tier, seed, ctx):
        """Relay family: the property speaks of the bytes produced for ANY message object, also one that came out of
        the decoder.  Every case is encoded the way a peer may (oracle encoder, random length forms / TRUE octets /
        explicit defaults; the value of a paged-results control written with long-form lengths, a padded INTEGER or
        octets behind the inner SEQUENCE - forms the library's decoder forgives), decoded by the implementation, and
        the OBJECT THAT CAME BACK is packed: those bytes must satisfy the strict decoder and denote the abstract
        message the object's public fields show."""
        import random

        from oracle import ber
        from props.c01 import decode, known_oid_generic

        rng = random.Random(seed ^ 0xC03)
        out = []
        self.relayed = 0
        for c in ctx["cases"]:
            m = c["msg"]
            if m[1][0] == 2 or known_oid_generic(m) or (len(ctx["cases"]) > 4000 and rng.random() < 0.7):
                continue
            am = abs_msg(m)
            for i, ctl in enumerate(m[2]):
                if ctl[0] == 1 and rng.random() < 0.7:
                    size, cookie = ctl[2], ctl[3]
                    integer = ber.enc_int(size)
                    r = rng.random()
                    if r < 0.4 and size >= 0:
                        integer = b"\x00" + integer          # 02 02 00 64
                    elif r < 0.5 and size < 0:
                        integer = b"\xff" + integer
                    inner = ber.tlv(0, False, 2, integer, rng.choice([0, 0, 1, 4])) + ber.tlv(0, False, 4, cookie, rng.choice([0, 0, 2, 4]))
                    val = ber.tlv(0, True, 16, inner, rng.choice([0, 1, 4]))
                    if rng.random() < 0.3:
                        val += bytes(rng.getrandbits(8) for _ in range(rng.randint(1, 3)))
                    am[2][i] = [0, msgs.OID_PAGED, bool(ctl[1]), [val]]
            try:
                data = rfc4511.encode(am, rfc4511.RandomStyle(rng, long_len=0.3, odd_true=0.5, defaults=0.5, trail=0.0))
                obj, rest = decode(data)
            except Exception:  # noqa: BLE001
                continue  # whether the decoder must accept this form is C04's question
            self.relayed += 1
            what = relay_check(obj)
            if what:
                out.append(({**c, "relay_input": data}, what))
                if len(out) >= 3:
                    break
        out += self.through_sessions(ctx["cases"], rng)
        return out

    def through_sessions(self, cases, rng):
        """The bytes an application actually produces come out of the session helpers (bind / bind_simple / bind_sasl,
        extended_request with an OID string or an ExtendedOperations member, search_request with defaults left out,
        the server's response helpers), not out of pack() on a hand-built message.  Every case that the helpers can
        express is sent through a session in one of the documented call forms (lib/sessions.py) and the drained bytes
        go through the strict decoder; they must denote the message the caller asked for."""
        from lib import sessions as S

        out = []
        self.via_sessions = 0
        for c in cases:
            r = session_one(c)
            if r is None:
                continue
            self.via_sessions += 1
            call, what = r
            if what:
                out.append(({**c, "session_call": call}, what))
                if len(out) >= 3:
                    break
        return out

    def extra_evidence(self, ctx):
        return {"relayed_messages_checked": getattr(self, "relayed", 0), "messages_sent_through_session_helpers": getattr(self, "via_sessions", 0)}

    def finding_key(self, c, what):
        if "UnbindRequest is [APPLICATION 2] NULL" in what:
            return "unbind-constructed"
        if what == "diff" and c["msg"][1][0] == 2:
            return "unbind-constructed"
        return None

    def oracle(self, c, ans):
        if ans and ans[0] == "!timeout":
            return "timeout"
        if c.get("session_call") is not None:
            r = session_one({k: v for k, v in c.items() if k != "session_call"})
            return None if r is None else r[1]
        if c.get("relay_input") is not None:
            from props.c01 import decode

            ri = c["relay_input"]
            obj, _ = decode(bytes.fromhex(ri["x"]) if isinstance(ri, dict) else bytes(ri))
            return relay_check(obj)
        w = ans[0]
        if not isinstance(w, dict):
            return f"encoding raised code {w}"
        data = bytes.fromhex(w["x"])
        try:
            got = rfc4511.decode_strict(data)
        except rfc4511.Bad as e:
            return f"independent RFC 4511 decoder rejects the encoding: {e}"
        want = abs_msg(c["msg"])
        if canon(got) != canon(want):
            return "independent RFC 4511 decoder recovers a different message"
        return None


PROP = C03()
