"""C04 -- decoder accepts every valid BER form of a message, not only its own."""
from __future__ import annotations

import random

from lib import msgs
from lib.framework import Prop, canon, res_of
from oracle import rfc4511
from props.c01 import decode, known_oid_generic, norm_msg
from props.c03 import abs_msg


def mask_raw(m):
    """raw value octets of library-known controls are 'as received': not compared."""
    out = []
    for c in m[2]:
        if c[0] == 1:
            out.append([1, c[1], c[2], c[3], "raw"])
        elif c[0] in (2, 3):
            out.append([c[0], c[1], "raw"])
        else:
            out.append(c)
    return [m[0], m[1], out]


def receive_one(c, cut):
    """-> None (no session expects this message / direct decoder refuses it) | (cut, what-or-None)"""
    from lib import sessions as S

    data = bytes(c["data"])
    m = c["msg"]
    mid, k = m[0], m[1][0]
    try:
        direct, rest = decode(data)
        want = canon(msgs.r_msg(direct))
    except Exception:  # noqa: BLE001
        return None
    if rest:
        return None

    def fresh():
        if k in (0, 3, 7):
            return S.new_session(S.SERVER)
        if k in (1, 4, 5, 6, 8) and isinstance(mid, int) and 1 <= mid <= 5 and not (k == 1 and mid != 1):
            s = S.new_session(S.CLIENT)
            for _ in range(mid):
                call = [S.C_BIND, b"", [1, b"GSSAPI", []], []] if k == 1 else [S.C_EXT, b"1.2", [], []] if k == 8 else [S.C_SEARCH, b"", 2, 0, 0, 0, 0, [7, b"objectClass"], [], []]
                if S.outcome_of(s, call)[0] != 0:
                    return None
            return s
        return None

    s1 = fresh()
    if s1 is None:
        return None
    whole = S.outcome_of(s1, [S.RECV, data])
    if whole[0] != 3:
        return None  # the session refuses the message for protocol reasons (the session properties' question)
    if canon(whole[1]) != [want]:
        return cut, "receive() returns a different message than the direct decoder for the same octets"
    s2 = fresh()
    a = S.outcome_of(s2, [S.RECV, data[:cut]])
    b = S.outcome_of(s2, [S.RECV, data[cut:]])
    if a[0] != 3 or b[0] != 3 or canon(a[1]) + canon(b[1]) != [want]:
        return cut, f"delivered in two parts (cut at {cut} of {len(data)}) the encoding is not read as the same message: {str(a)[:80]} / {str(b)[:80]}"
    return cut, None


class C04(Prop):
    id = "C04"
    prop_file = "Props/C04"
    level = "proof"
    binary_cases = True
    quick_n = 2500
    thorough_n = 60000
    rule = (
        "structured message values of all 9 kinds re-encoded by an independent RFC 4511 encoder that, per TLV node and "
        "from one seeded PRNG, chooses among the freedoms a conforming peer has: long-form lengths with 1,2,3,4 or 8 "
        "length octets (also for short contents), TRUE as any non-zero octet, explicitly encoded DEFAULT FALSE "
        "(criticality, dnAttributes), unrecognised trailing elements (private-class, NULL, high context tags) after the "
        "defined components of the extensible sequences; implementation and extracted model decode the result, which "
        "must equal the decoding of the library's own encoding; every accepted encoding is also delivered to a session expecting it, whole and cut in two at a random offset, and receive() must return the same message; non-trivial = at least one freedom was actually used"
    )
    assumptions = [
        "trailing elements use tags the header reader accepts (UNIVERSAL numbers of the TypeTagNumber table) and are placed only where RFC 4511 marks the type extensible; SET OF filter / SEQUENCE OF URI are not extensible",
        "the raw value octets a known control exposes are 'as received' and therefore not compared",
    ]

    def corpus(self):
        out = []
        for seed in range(12):
            rng = random.Random(1000 + seed)
            m = msgs.g_msg(rng, kind=seed % 9, depth=3)
            m[2] = [msgs.g_control(rng) for _ in range(2)]
            st = rfc4511.RandomStyle(rng, long_len=1.0, odd_true=1.0, defaults=1.0, trail=0.0)
            st.length_form = lambda n: 4   # Active Directory style fixed 4-octet lengths
            out.append(self.mk(m, st))
        return out

    def mk(self, m, style):
        data = rfc4511.encode(abs_msg(m), style)
        return {"kind": "alt", "msg": m, "data": data, "used": sorted(style.used) if hasattr(style, "used") else []}

    def generate(self, rng, n, tier):
        out = []
        for _ in range(n):
            m = msgs.g_msg(rng)
            if m[1][0] == 2:
                m = msgs.g_msg(rng, kind=rng.choice([0, 1, 3, 4, 5, 7, 8]))
            if rng.random() < 0.3 and not m[2]:
                m[2] = [msgs.g_control(rng) for _ in range(rng.randint(1, 2))]
            r = rng.random()
            if r < 0.25:
                st = rfc4511.RandomStyle(rng, long_len=0.5, odd_true=0, defaults=0, trail=0)
            elif r < 0.4:
                st = rfc4511.RandomStyle(rng, long_len=0, odd_true=1, defaults=1, trail=0)
            elif r < 0.55:
                st = rfc4511.RandomStyle(rng, long_len=0, odd_true=0, defaults=0, trail=0.6)
            else:
                st = rfc4511.RandomStyle(rng)
            out.append(self.mk(m, st))
        return out

    def model_requests(self, c):
        return [[101, c["data"]]]

    def impl_run(self, c):
        def dec():
            m, rest = decode(c["data"])
            return [msgs.r_msg(m), rest]

        return [res_of(dec)]

    def oracle(self, c, ans):
        if ans and ans[0] == "!timeout":
            return "timeout"
        a = ans[0]
        if c.get("receive_cut") is not None:
            r = receive_one(c, c["receive_cut"])
            return None if r is None else r[1]
        if known_oid_generic(c["msg"]):
            return None
        if a[0] != 0:
            return f"a valid BER encoding of the message was rejected (code {a[1]}); freedoms used: {c['used']}"
        got, rest = a[1]
        if rest != {"x": ""}:
            return "decoder did not consume the whole message"
        want = canon(mask_raw(norm_msg(c["msg"])))
        have = canon(mask_raw(_unc(got)))
        if have != want:
            return f"decoded value differs from the decoding of the library's own encoding; freedoms used: {c['used']}"
        return None

    def extra_checks(self, tier, seed, ctx):
        """Peers talk to sessions, not to unpack_ldap_message: every encoding the direct decoder accepts is also
        delivered to a session that expects such a message (a server for requests; a client that has issued the
        matching requests for responses with ids 1..5), whole and cut in two at a random offset.  receive() must
        return exactly the message the direct decoder returns, for both deliveries."""
        from lib import sessions as S

        rng = random.Random(seed ^ 0xC04)
        out = []
        self.delivered = 0
        for c in ctx["cases"]:
            if len(ctx["cases"]) > 6000 and rng.random() < 0.8:
                continue
            r = receive_one(c, rng.randrange(1, max(2, len(c["data"]))))
            if r is None:
                continue
            self.delivered += 1
            cut, what = r
            if what:
                out.append(({**c, "receive_cut": cut}, what))
                if len(out) >= 3:
                    break
        return out

    def extra_evidence(self, ctx):
        return {"encodings_delivered_to_sessions": getattr(self, "delivered", 0)}

    def classify(self, c):
        u = c.get("used") or []
        tags = sorted({x.split(":")[0] for x in u})
        return msgs.msg_kind(c["msg"]) + ("+" + "+".join(tags) if tags else "+canonical")

    def nontrivial(self, c):
        return bool(c.get("used")) or c["data"] != msgs.pack(c["msg"])


def _unc(v):
    from lib.framework import uncanon

    return uncanon(v)


PROP = C04()
