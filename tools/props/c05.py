"""C05 -- receiving arbitrary bytes either yields messages or fails closed."""
from __future__ import annotations

from lib import msgs, sessions
from lib.sessions import C_BIND, C_EXT, C_SEARCH, CLIENT, RECV, SERVER
from oracle import ber
from props.c02 import chunkings
from props.session_common import CLOSED, SessionProp, X

UNBIND_RFC = bytes.fromhex("30050201004200")
UNBIND_LIB = bytes.fromhex("30050201006200")


def corrupt_node(rng, data: bytes) -> bytes:
    """Single-node corruption of a valid encoding."""
    if not data:
        return b"\x30\x00"
    b = bytearray(data)
    r = rng.random()
    # positions of TLV starts
    starts = []

    def walk(pos, end, depth):
        while pos < end and len(starts) < 200:
            try:
                cls, cons, num, hl, ln = ber.parse_header(bytes(b), pos)
            except Exception:  # noqa: BLE001
                return
            if pos + hl + ln > end:
                return
            starts.append((pos, hl, ln, cons))
            if cons:
                walk(pos + hl, pos + hl + ln, depth + 1)
            pos += hl + ln

    walk(0, len(b), 0)
    if not starts:
        b[rng.randrange(len(b))] = rng.getrandbits(8)
        return bytes(b)
    pos, hl, ln, cons = rng.choice(starts)
    if r < 0.2:      # tag edit
        b[pos] = rng.choice([b[pos] ^ 0x20, b[pos] ^ 0x40, b[pos] ^ 0x80, b[pos] | 0x1F, rng.getrandbits(8), 0x1F, 0x00])
    elif r < 0.45:   # length edit
        b[pos + hl - 1 if hl == 2 else pos + 1] = rng.choice([0x80, 0x81, 0x84, 0xFF, 0, (ln + 1) & 0x7F, max(ln - 1, 0) & 0x7F, rng.getrandbits(8)])
    elif r < 0.6:    # zero-length primitive: keep the identifier, drop the content
        ident = hl - 1 if hl >= 2 else 1
        new = bytes(b[:pos + ident]) + b"\x00" + bytes(b[pos + hl + ln:])
        return new
    elif r < 0.75 and ln:  # content edit
        i = pos + hl + rng.randrange(ln)
        b[i] = rng.choice([0xFF, 0x80, 0xC3, 0x00, rng.getrandbits(8)])
    elif r < 0.9:    # truncation
        return bytes(b[: rng.randrange(len(b))])
    else:            # nesting bomb spliced in
        depth = rng.choice([5, 50, 400, 1500])
        inner = b"\x87\x01a"
        for _ in range(depth):
            inner = ber.tlv(2, True, 2, inner)
        return bytes(b[:pos]) + inner + bytes(b[pos + hl + ln:])
    return bytes(b)


class C05(SessionProp):
    id = "C05"
    prop_file = "Props/C05"
    quick_n = 2500
    thorough_n = 80000
    rule = (
        "seeded deliveries to client and server sessions in every state (fresh, binding, with searches/extended "
        "requests outstanding, after closure): random octets, and every kind of valid message (all 9 kinds, both "
        "directions) with one node corrupted (identifier edits, length edits incl. 0x80/long forms, zero-length "
        "primitives, content edits producing invalid UTF-8, truncation, spliced nesting bombs of depth 5..1500), whole "
        "or in random chunks, followed by one more delivery after a failure; plus intact streams of 2-4 responses of arbitrary "
        "kinds reusing the ids of the client's operations in progress; plus intact notices of disconnection with 1-3 KiB of 1-4 byte characters as diagnostic text, to both roles; non-trivial = corrupted or chunked input"
    )

    def corpus(self):
        deep = b"\x87\x01a"
        for _ in range(2000):
            deep = ber.tlv(2, True, 2, deep)
        sr = ber.tlv(0, True, 16, ber.tlv(0, False, 2, b"\x01") + ber.tlv(1, True, 3,
              ber.tlv(0, False, 4, b"") + bytes.fromhex("0a01000a0100020100020100010100") + deep + ber.tlv(0, True, 16, b"")))
        notice_bad_utf8 = bytes.fromhex("302a02010078250a01340400040662796520fffe8a16312e332e362e312e342e312e313436362e3230303336")
        # MS-ADTS: responseName [10] at the envelope level, after the protocolOp
        ext = ber.tlv(1, True, 24, ber.tlv(0, False, 10, b"\x00") + ber.tlv(0, False, 4, b"") + ber.tlv(0, False, 4, b""))
        ad1 = ber.tlv(0, True, 16, ber.tlv(0, False, 2, b"\x01") + ext + ber.tlv(2, False, 10, b"1.2.840.113556.1.4.1781"))
        ad2 = ber.tlv(0, True, 16, ber.tlv(0, False, 2, b"\x00") + ext + ber.tlv(2, False, 10, msgs.OID_NOTICE))
        ad3 = ber.tlv(0, True, 16, ber.tlv(0, False, 2, b"\x01") + ext + ber.tlv(2, False, 10, b"") + ber.tlv(2, False, 10, b"\xff"))
        adcases = [
            {"role": 0, "pre": [[C_EXT, b"1.2", [], []]], "chunks": [d], "calls": [[C_EXT, b"1.2", [], []], [RECV, d], [RECV, b"\x30"]], "meta": None, "mut": 1}
            for d in (ad1, ad2, ad3)
        ]
        return adcases + [
            {"role": 0, "pre": [], "chunks": [bytes.fromhex("30020200")], "calls": [[RECV, bytes.fromhex("30020200")]], "meta": None, "mut": 1},
            {"role": 1, "pre": [], "chunks": [sr], "calls": [[RECV, sr], [RECV, b"\x30"]], "meta": None, "mut": 1},
            {"role": 1, "pre": [], "chunks": [notice_bad_utf8], "calls": [[RECV, notice_bad_utf8], [RECV, b"\x30"]], "meta": None, "mut": 1},
            {"role": 0, "pre": [], "chunks": [notice_bad_utf8], "calls": [[RECV, notice_bad_utf8], [RECV, b"\x30"]], "meta": None, "mut": 1},
        ]

    def gen_one(self, rng):
        role = rng.randint(0, 1)
        pre = []
        r = rng.random()
        if role == CLIENT:
            if r < 0.3:
                pre.append([C_BIND, b"cn=a", [0, b"pw"], []])
                if rng.random() < 0.5:
                    # refused while the bind is in progress: must leave nothing behind that a later response can hit
                    pre.append([C_SEARCH] + msgs.g_op(rng, 3, depth=0)[1:] + [[]])
                    pre.append([C_EXT, b"1.2.3", [], []])
            elif r < 0.8:
                for _ in range(rng.randint(1, 3)):
                    if rng.random() < 0.5:
                        op = msgs.g_op(rng, 3, depth=0)
                        pre.append([C_SEARCH] + op[1:] + [[]])
                    else:
                        pre.append([C_EXT, b"1.2.3", [], []])
        else:
            if r < 0.5:
                pre.append([RECV, msgs.pack([1, msgs.g_op(rng, rng.choice([0, 3, 7]), depth=0), []])])
        if rng.random() < 0.04:
            # a well-formed notice of disconnection (or other response) addressed to either role whose text is long
            # and not ASCII: error texts that quote the peer must survive any limit applied to them
            m = [rng.choice([0, 0, 1]), [8, [rng.choice([2, 8, 52, 80]), b"", msgs.g_long_text(rng), []], [msgs.OID_NOTICE] if rng.random() < 0.8 else [], []], []]
            data = msgs.pack(m)
            if rng.random() < 0.4:
                # the same message with a short diagnostic text that is ALMOST UTF-8: encoded surrogates (CESU-8),
                # overlong forms, code points past U+10FFFF, a truncated sequence - spliced in at the octet level
                bad = rng.choice([b"\xed\xa0\xbd\xed\xb8\x80", b"\xed\xa0\x80", b"\xed\xbf\xbf", b"\xc0\xaf", b"\xe0\x80\xaf",
                                  b"\xf4\x90\x80\x80", b"\xf8\x88\x80\x80\x80", b"caf\xc3", b"\xef\xbf\xbe"])
                m2 = [m[0], [8, [m[1][1][0], b"", b"PLACEHOLDER", []], m[1][2], []], []]
                data = msgs.pack(m2).replace(b"PLACEHOLDER", bad + b"x" * (11 - len(bad)))
            chunks = [data] if rng.random() < 0.6 else chunkings(rng, data)
            return {"role": role, "pre": pre, "chunks": chunks, "calls": pre + [[RECV, c] for c in chunks] + [[RECV, b"\x30"]], "meta": None, "mut": 0}
        k = rng.randint(1, 3)
        ms = []
        # family "well-formed but unexpected": several intact responses (any response kind) reusing the ids
        # of operations in progress, so that bookkeeping sets are driven through every order of retirement
        unexpected = role == CLIENT and pre and rng.random() < 0.3
        if unexpected:
            k = rng.randint(2, 4)
        for _ in range(k):
            kind = rng.choice([1, 4, 5, 6, 8]) if unexpected else rng.randrange(9)
            m = msgs.g_msg(rng, kind, depth=rng.choice([0, 1, 2]))
            if unexpected:
                m[0] = rng.randint(1, len(pre))
            elif rng.random() < 0.6:
                m[0] = rng.choice([1, 1, 2, 3])
            ms.append(m)
        data = b"".join(msgs.pack(m) for m in ms)
        mut = 0
        rr = 0.9 if unexpected and rng.random() < 0.7 else rng.random()
        if rr < 0.7:
            data = corrupt_node(rng, data)
            mut = 1
            if rng.random() < 0.2:
                data = corrupt_node(rng, data)
        elif rr < 0.8:
            data = bytes(rng.getrandbits(8) for _ in range(rng.randint(0, 40)))
            mut = 1
        chunks = [data] if rng.random() < 0.6 else chunkings(rng, data)
        after = [[RECV, rng.choice([b"", b"\x30", msgs.pack(ms[0])])]]
        return {"role": role, "pre": pre, "chunks": chunks, "calls": pre + [[RECV, c] for c in chunks] + after, "meta": None, "mut": mut}

    def generate(self, rng, n, tier):
        return [self.gen_one(rng) for _ in range(n)]

    def finding_key(self, c, what):
        if "unbind attached to the error is encoded constructed" in what:
            return "unbind-constructed"
        return None

    def oracle(self, c, ans):
        if ans and ans[0] == "!timeout":
            return "timeout"
        import sansldap

        # re-run on the implementation to look at the exception objects themselves
        s = sessions.new_session(c["role"])
        known = None
        closed = False
        for i, call in enumerate(c["calls"]):
            if call[0] != RECV:
                sessions.outcome_of(s, call)
                continue
            try:
                r = s.receive(call[1])
                if not isinstance(r, list):
                    return f"call {i}: receive returned {type(r).__name__}"
                if closed:
                    return f"call {i}: a CLOSED session accepted input"
            except sansldap.ProtocolError as e:
                closed = True
                if s.state != sansldap.SessionState.CLOSED:
                    return f"call {i}: ProtocolError but state is {s.state.name}"
                resp = e.response
                if resp is not None:
                    kind = sessions.classify_response(resp)
                    if c["role"] == SERVER and kind != 2:
                        return f"call {i}: server-side error carries bytes that are not a notice of disconnection: {bytes(resp).hex()}"
                    if c["role"] == CLIENT:
                        if kind != 1:
                            return f"call {i}: client-side error carries bytes that are not an unbind: {bytes(resp).hex()}"
                        if bytes(resp) != UNBIND_RFC:
                            if bytes(resp) == UNBIND_LIB:
                                known = known or f"call {i}: the unbind attached to the error is encoded constructed (62 00), RFC 4511 says [APPLICATION 2] NULL primitive (42 00)"
                            else:
                                return f"call {i}: unbind bytes {bytes(resp).hex()}"
            except BaseException as e:  # noqa: BLE001
                if isinstance(e, (KeyboardInterrupt, SystemExit)):
                    raise
                from lib.framework import Timeout

                if isinstance(e, Timeout):
                    raise
                return f"call {i}: receive raised {type(e).__name__}: {str(e)[:80]}"
        return known

    def classify(self, c):
        return ("client" if c["role"] == 0 else "server") + ("-mutated" if c.get("mut") else "-valid")

    def nontrivial(self, c):
        return bool(c.get("mut")) or len(c["chunks"]) > 1


PROP = C05()
