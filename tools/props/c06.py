"""C06 -- no complete protocol data unit is ever silently discarded."""
from __future__ import annotations

from lib import msgs, sessions
from lib.sessions import C_EXT, C_SEARCH, CLIENT, RECV, SERVER
from oracle import ber
from props.c02 import chunkings
from props.session_common import CLOSED, SessionProp, X


def mutate_interior(rng, unit: bytes) -> bytes:
    """Keep the outer identifier/length octets, damage the interior."""
    try:
        _, _, _, hl, ln = ber.parse_header(unit)
    except Exception:  # noqa: BLE001
        return unit
    if ln == 0:
        return unit
    b = bytearray(unit)
    r = rng.random()
    if rng.random() < 0.12:
        # the interior ends in the first octet(s) of a high-tag-number identifier: complete envelope, incomplete header
        tail = bytes([rng.choice([0x1F, 0x3F, 0x5F, 0x7F, 0x9F, 0xBF, 0xDF, 0xFF])]) + rng.choice([b"", b"\x81", b"\x81\x80"])
        keep = rng.choice([ln, ln, rng.randrange(0, ln + 1)])
        return ber.tlv(0, True, 16, bytes(b[hl : hl + keep]) + tail, form=rng.choice([0, 0, 2, 4]))
    if r < 0.45:
        # find an inner length octet and change it
        for _ in range(rng.choice([1, 1, 2])):
            i = rng.randrange(hl, len(b))
            b[i] = rng.choice([b[i] + 1, b[i] + 3, max(b[i] - 1, 0), 0x7F, 0x81, 0x84, rng.getrandbits(8)]) & 0xFF
    elif r < 0.7:
        i = rng.randrange(hl, len(b))
        b[i] = rng.getrandbits(8)
    elif r < 0.85:
        # drop an interior octet but keep the envelope length satisfied by padding at the end
        i = rng.randrange(hl, len(b))
        del b[i]
        b.append(0)
    else:
        # truncate the interior and shrink the outer length accordingly (still a complete unit)
        cut = rng.randrange(0, ln)
        body = bytes(b[hl : hl + cut])
        return ber.tlv(0, True, 16, body, form=rng.choice([0, 0, 2, 4]))
    return bytes(b)


class C06(SessionProp):
    id = "C06"
    prop_file = "Props/C06"
    quick_n = 1500
    thorough_n = 40000
    rule = (
        "seeded streams of 1-5 complete outer TLVs: valid messages of every kind (to client and server, with "
        "matching outstanding requests; 15% of the server streams arrive during a multi-step SASL bind) of which 0-2 have a damaged interior (inner length edits, overruns, dropped "
        "octets, truncation with a re-fitted envelope, known controls with short values), delivered whole, byte by "
        "byte or in random chunks; an independent framer that only reads identifier/length octets counts the complete "
        "units delivered after every call; non-trivial = a damaged unit or 2+ chunks"
    )

    def corpus(self):
        # the replay of the original defect: complete envelope, diagnosticMessage claims 5 octets, 2 present
        bad = bytes.fromhex("300e02010161090a0100040004056162")
        good = msgs.pack([1, [8, [0, b"", b"", []], [], []], []])
        pre = [[C_EXT, b"1.2", [], []]]
        hightag = [
            {"role": r, "pre": [], "chunks": [e], "calls": [[RECV, e]], "meta": None, "damaged": 1}
            for r in (0, 1) for e in (bytes.fromhex("3004020102" + "7f"), bytes.fromhex("3005020102" + "1f81"), bytes.fromhex("3003020101" + "") + b"", bytes.fromhex("30050201029f81"))
        ]
        empties = hightag + [
            {"role": r, "pre": [], "chunks": [e], "calls": [[RECV, e]], "meta": None, "damaged": 1}
            for r in (0, 1) for e in (bytes.fromhex("308100"), bytes.fromhex("30820000"), bytes.fromhex("308400000000"))
        ]
        return empties + [
            {"role": 0, "pre": pre, "chunks": [bad + good], "calls": pre + [[RECV, bad + good]], "meta": None, "damaged": 1},
            {"role": 0, "pre": pre, "chunks": [bad], "calls": pre + [[RECV, bad]], "meta": None, "damaged": 1},
        ]

    def gen_one(self, rng):
        role = rng.randint(0, 1)
        pre, units = [], []
        damaged = 0
        n = rng.randint(1, 5)
        if role == CLIENT:
            for _ in range(n):
                pre.append([C_EXT, b"1.2.3", [], []])
            for i in range(1, n + 1):
                op = msgs.g_op(rng, rng.choice([8, 1, 5, 4, 6]))
                if op[0] == 8 and op[2] == [msgs.OID_NOTICE]:
                    op[2] = []
                cs = msgs.g_controls(rng)
                units.append(msgs.pack([i, op, cs]))
        else:
            first = 1
            if rng.random() < 0.15:
                # a multi-step SASL bind is in progress (answered with saslBindInProgress) when the units arrive
                pre.append([RECV, msgs.pack([1, [0, 3, b"", [1, b"GSSAPI", [b"tok"]]], []])])
                pre.append([sessions.S_BINDRESP, 1, [b"srv"], 14, b"", b"", []])
                first = 2
            for i in range(first, n + first):
                units.append(msgs.pack([i, msgs.g_op(rng, rng.choice([3, 7, 7, 0]), depth=rng.choice([0, 1, 2])), msgs.g_controls(rng)]))
        for i in range(len(units)):
            if rng.random() < 0.3:
                units[i] = mutate_interior(rng, units[i])
                damaged += 1
        if rng.random() < 0.1:
            # a known control without / with a short value inside a complete envelope
            ctl = ber.tlv(0, True, 16, ber.tlv(0, False, 4, msgs.OID_PAGED) + (b"" if rng.random() < 0.5 else ber.tlv(0, False, 4, b"\x30\x05\x02\x01")))
            body = ber.tlv(0, False, 2, b"\x01") + ber.tlv(1, True, 5 if role == CLIENT else 23,
                                                           (ber.tlv(0, False, 10, b"\x00") + ber.tlv(0, False, 4, b"") + ber.tlv(0, False, 4, b"")) if role == CLIENT else ber.tlv(2, False, 0, b"1.2")) \
                + ber.tlv(2, True, 0, ctl)
            units.insert(rng.randrange(len(units) + 1), ber.tlv(0, True, 16, body))
            damaged += 1
        if rng.random() < 0.08:
            # a complete outer unit with NO content, its zero length written in a long form, as the last thing
            # delivered: it is complete (nothing more will come) and is not a message
            units.append(rng.choice([bytes.fromhex("308100"), bytes.fromhex("30820000"), bytes.fromhex("308400000000"), bytes.fromhex("3000")]))
            damaged += 1
        stream = b"".join(units)
        if rng.random() < 0.15 and not stream.endswith(b"\x00"):
            stream += stream[: rng.randrange(1, 6)]  # a genuinely incomplete tail
        chunks = [stream] if rng.random() < 0.3 else chunkings(rng, stream)
        return {"role": role, "pre": pre, "chunks": chunks, "calls": pre + [[RECV, c] for c in chunks], "meta": None, "damaged": damaged}

    def generate(self, rng, n, tier):
        return [self.gen_one(rng) for _ in range(n)]

    def oracle(self, c, ans):
        if ans and ans[0] == "!timeout":
            return "timeout"
        trace = ans[0][len(c["pre"]) :]
        delivered = b""
        returned = 0
        for i, (ch, (o, snap)) in enumerate(zip(c["chunks"], trace)):
            delivered += ch
            units, residue, err = ber.frame(delivered)
            if o[0] == 5:
                return None  # accounted for by a protocol error
            if o[0] != 3:
                return f"chunk {i}: receive ended with outcome {o}"
            returned += len(o[1])
            if err:
                # malformed framing octets (e.g. indefinite length) must have been reported
                return f"chunk {i}: malformed outer unit not reported"
            if returned != len(units):
                return (
                    f"chunk {i}: {len(units)} complete unit(s) delivered so far but {returned} message(s) returned "
                    f"and no protocol error raised"
                )
        return None

    def classify(self, c):
        return ("client" if c["role"] == 0 else "server") + f"-damaged{min(c.get('damaged', 0), 3)}"

    def nontrivial(self, c):
        return c.get("damaged", 0) > 0 or len(c["chunks"]) > 1

    def shrink(self, c):
        ch = c["chunks"]
        if len(ch) > 1:
            for i in range(len(ch) - 1):
                merged = ch[:i] + [ch[i] + ch[i + 1]] + ch[i + 2 :]
                yield {**c, "chunks": merged, "calls": c["pre"] + [[RECV, x] for x in merged]}


PROP = C06()
