"""C07 -- BER primitives agree with an arithmetic oracle in both directions."""
from __future__ import annotations

import random

from lib import sx
from lib.framework import Prop, res_of
from oracle import ber

UNIVERSAL_OK = set(range(0, 37))


def mk_tag(t):
    from sansldap.asn1 import ASN1Tag, TagClass

    if t is None:
        return None
    c, n, k = t
    return ASN1Tag(TagClass(c), n, bool(k))


def r_tag(t):
    return [int(t.tag_class), int(t.tag_number), bool(t.is_constructed)]


def r_hdr(h):
    return [r_tag(h.tag), h.tag_length, h.length]


def writer_bytes(fn):
    from sansldap.asn1 import ASN1Writer

    w = ASN1Writer()
    fn(w)
    return bytes(w.get_data())


def tree_sx(x):
    k = x[0]
    if k in (5, 6):
        return [k, sx.opt(x[1]), [tree_sx(c) for c in x[2]]]
    if k == 4:
        return [k, sx.opt(x[1]), bytes.fromhex(x[2])]
    if k == 3:
        return [k, sx.opt(x[1]), bool(x[2])]
    return [k, sx.opt(x[1]), x[2]]


def write_tree(w, x):
    k, t = x[0], mk_tag(x[1])
    if k == 1:
        w.write_integer(x[2], tag=t)
    elif k == 2:
        w.write_enumerated(x[2], tag=t)
    elif k == 3:
        w.write_boolean(bool(x[2]), tag=t)
    elif k == 4:
        w.write_octet_string(bytes.fromhex(x[2]), tag=t)
    elif k == 5:
        with w.push_sequence(t) as s:
            for c in x[2]:
                write_tree(s, c)
    else:
        with w.push_set(t) as s:
            for c in x[2]:
                write_tree(s, c)


def read_tree(r, x):
    """-> tree rendered like Driver.s_tree"""
    k, t = x[0], mk_tag(x[1])
    if k == 1:
        return [1, sx.opt(x[1]), r.read_integer(tag=t)]
    if k == 2:
        return [2, sx.opt(x[1]), int(r.read_enumerated(int, tag=t))]
    if k == 3:
        return [3, sx.opt(x[1]), bool(r.read_boolean(tag=t))]
    if k == 4:
        return [4, sx.opt(x[1]), r.read_octet_string(tag=t)]
    inner = r.read_sequence(tag=t) if k == 5 else r.read_set(tag=t)
    kids = [read_tree(inner, c) for c in x[2]]
    if inner:
        raise ValueError("constructed value not exhausted by its children")
    return [k, sx.opt(x[1]), kids]


class C07(Prop):
    id = "C07"
    prop_file = "Props/C07"
    quick_n = 3000
    thorough_n = 80000
    rule = (
        "seeded structured generation: integers biased to +-2^(8k)+-{0,1,2}, +-2^(7k), random 1-40 octet "
        "contents (padded, minimal, empty); tags of every class x numbers {0..40,127,128,255,256,16383,16384,"
        "2^21+-1,2^35} x both forms; lengths around 0,127,128,255,256,65535,65536; random and truncated "
        "headers; nested trees to depth 5.  Each case runs through the model (extracted Coq) and the "
        "implementation's public ASN1Writer/ASN1Reader API; distinct = distinct JSON; non-trivial = exercises "
        "a multi-octet integer, a high tag number, a long-form length, nesting, or an error path"
    )
    assumptions = [
        "content lengths below 256^125 octets (count octet of the long form stays below 0xFF)",
        "tag class in 0..3 and, for UNIVERSAL, a tag number of the TypeTagNumber table (the reader converts with TypeTagNumber(n))",
    ]

    # ---------------------------------------------------------------- generation
    def corpus(self):
        cs = []
        for z in (-65536, -(2**31), -(2**63), -32768, -32769, -129, -128, -1, 0, 127, 128, 255, 256, 2**31 - 1, 2**63):
            cs.append({"kind": "int_rt", "tag": None, "z": z, "rest": "99"})
        for h in ("ff0000", "80000000", "", "00", "0080", "ffff80", "00000000ff", "ff", "7f"):
            cs.append({"kind": "int_raw", "content": h})
        # every integer whose two's complement octets are drawn from the boundary alphabet, lengths 1-4 (2800 values):
        # sign octets, carries and "lowest set bit" tricks all live in these patterns
        import itertools

        alpha = (0x00, 0x01, 0x7F, 0x80, 0x81, 0xFE, 0xFF)
        seen = set()
        for k in (1, 2, 3, 4):
            for octs in itertools.product(alpha, repeat=k):
                z = int.from_bytes(bytes(octs), "big", signed=True)
                if z not in seen:
                    seen.add(z)
                    cs.append({"kind": "int_rt", "tag": None, "z": z, "rest": "99"})
        for z in (-0x808000, -0x80000080, -0x8000000080, 0x8000000080, -0x80FF80, -(0x80 << 64) - 0x80):
            cs.append({"kind": "int_rt", "tag": None, "z": z, "rest": ""})
        cs.append({"kind": "peek", "data": "5f8100820100"})
        cs.append({"kind": "peek", "data": "1f25" + "00"})
        cs.append({"kind": "peek", "data": "3080"})
        # APPLICATION 128: first multi-octet number whose top octet is 0x81
        for num in (31, 127, 128, 255, 256, 16383, 16384, 65535, 2**21 - 1, 2**21, 2**24 - 1):
            cs.append({"kind": "oct_rt", "tag": [1, num, 0], "data": "007f80ff", "rest": "0202ef6e"})
        return cs

    def rand_int(self, rng):
        r = rng.random()
        if r < 0.35:
            k = rng.randint(0, 20)
            base = rng.choice([8 * k, 8 * k - 1, 7 * k, 8 * k + 1])
            v = (1 << max(base, 0)) + rng.choice([-2, -1, 0, 1, 2])
            return v if rng.random() < 0.5 else -v
        if r < 0.6:
            n = rng.randint(1, 40)
            return int.from_bytes(bytes(rng.getrandbits(8) for _ in range(n)), "big", signed=True)
        if r < 0.8:
            return rng.randint(-70000, 70000)
        return rng.randint(-300, 300)

    def rand_tag(self, rng, allow_none=True, kind=None):
        if allow_none and rng.random() < 0.25:
            return None
        cls = rng.choice([0, 1, 1, 2, 2, 2, 3])
        if cls == 0:
            num = rng.choice(list(UNIVERSAL_OK)) if rng.random() < 0.9 else rng.choice([37, 40, 100, 1000])
        else:
            num = rng.choice(
                list(range(0, 41)) + [127, 128, 129, 255, 256, 16383, 16384, 65535, 65536, 2**21 - 1, 2**21, 2**21 + 1, 2**35]
            )
        return [cls, num, rng.randint(0, 1)]

    def rand_bytes(self, rng, hi=12):
        return bytes(rng.getrandbits(8) for _ in range(rng.randint(0, hi))).hex()

    def rand_len_data(self, rng):
        r = rng.random()
        if r < 0.5:
            n = rng.randint(0, 20)
        elif r < 0.9:
            n = rng.choice([126, 127, 128, 129, 130, 254, 255, 256, 257])
        else:
            n = rng.choice([65535, 65536, 65537])
        b = rng.getrandbits(8)
        return (bytes([b]) * n).hex()

    def rand_tree(self, rng, depth):
        k = rng.choice([1, 2, 3, 4, 5, 6]) if depth > 0 else rng.choice([1, 2, 3, 4])
        t = self.rand_tag(rng)
        if t is not None and t[0] == 0 and t[1] not in UNIVERSAL_OK:
            t = None
        if k in (1, 2):
            return [k, t, self.rand_int(rng)]
        if k == 3:
            return [3, t, rng.randint(0, 1)]
        if k == 4:
            return [4, t, self.rand_bytes(rng, 140 if rng.random() < 0.2 else 8)]
        return [k, t, [self.rand_tree(rng, depth - 1) for _ in range(rng.randint(0, 3))]]

    def rand_header_bytes(self, rng):
        r = rng.random()
        if r < 0.5:
            cls, cons = rng.randint(0, 3), rng.random() < 0.5
            num = rng.choice(list(range(0, 45)) + [127, 128, 16383, 16384, 2**21, 2**28 + 5])
            ln = rng.choice([0, 1, 5, 127, 128, 255, 256, 65535, 65536, 2**24, 2**31, 2**70])
            form = rng.choice([0, 0, 1, 2, 3, 4, 5, 9])
            b = ber.enc_ident(cls, cons, num) + ber.enc_len(ln, form)
            if rng.random() < 0.3:
                b = b[: rng.randint(0, len(b))]
            elif rng.random() < 0.3:
                b += bytes(rng.getrandbits(8) for _ in range(rng.randint(0, 4)))
            return b.hex()
        if r < 0.6:
            return bytes([rng.getrandbits(8), 0x80]).hex()
        return bytes(rng.getrandbits(8) for _ in range(rng.randint(0, 8))).hex()

    def generate(self, rng, n, tier):
        out = []
        for _ in range(n):
            r = rng.random()
            if r < 0.22:
                out.append({"kind": rng.choice(["int_rt", "enum_rt"]), "tag": self.rand_tag(rng), "z": self.rand_int(rng), "rest": self.rand_bytes(rng, 3)})
            elif r < 0.37:
                n_ = rng.randint(0, 12)
                c = bytes(rng.choice([0, 0xFF, 0x80, 0x7F, rng.getrandbits(8)]) for _ in range(n_))
                out.append({"kind": "int_raw", "content": c.hex()})
            elif r < 0.55:
                out.append({"kind": "peek", "data": self.rand_header_bytes(rng)})
            elif r < 0.7:
                big = tier == "thorough" or rng.random() < 0.05
                d = self.rand_len_data(rng) if big or rng.random() < 0.7 else self.rand_bytes(rng)
                if not big and len(d) > 2 * 300:
                    d = d[:600]
                out.append({"kind": "oct_rt", "tag": self.rand_tag(rng), "data": d, "rest": self.rand_bytes(rng, 3)})
            elif r < 0.78:
                c = bytes(rng.getrandbits(8) for _ in range(rng.choice([0, 1, 1, 1, 2, 3])))
                out.append({"kind": "bool_raw", "content": c.hex()})
            elif r < 0.83:
                out.append({"kind": "bool_rt", "tag": self.rand_tag(rng), "b": rng.randint(0, 1), "rest": self.rand_bytes(rng, 3)})
            elif r < 0.95:
                out.append({"kind": "tree_rt", "tree": self.rand_tree(rng, rng.randint(0, 5)), "rest": self.rand_bytes(rng, 3)})
            else:
                out.append({"kind": "skip", "data": self.rand_header_bytes(rng) + self.rand_bytes(rng, 6)})
        return out

    # ---------------------------------------------------------------- model / implementation
    def model_requests(self, c):
        k = c["kind"]
        if k == "int_rt":
            return [[30, sx.opt(c["tag"]), c["z"], bytes.fromhex(c["rest"])]]
        if k == "enum_rt":
            return [[34, sx.opt(c["tag"]), c["z"], bytes.fromhex(c["rest"])]]
        if k == "int_raw":
            d = ber.tlv(0, False, 2, bytes.fromhex(c["content"]))
            return [[11, [], d], [19, d]]
        if k == "peek":
            return [[10, bytes.fromhex(c["data"])]]
        if k == "oct_rt":
            return [[31, sx.opt(c["tag"]), bytes.fromhex(c["data"]), bytes.fromhex(c["rest"])]]
        if k == "bool_raw":
            d = ber.tlv(0, False, 1, bytes.fromhex(c["content"]))
            return [[13, [], d], [21, d]]
        if k == "bool_rt":
            return [[33, sx.opt(c["tag"]), bool(c["b"]), bytes.fromhex(c["rest"])]]
        if k == "tree_rt":
            return [[32, tree_sx(c["tree"]), bytes.fromhex(c["rest"])]]
        if k == "skip":
            return [[17, bytes.fromhex(c["data"])]]
        raise KeyError(k)

    def impl_run(self, c):
        import enum

        from sansldap.asn1 import ASN1Reader

        k = c["kind"]
        rest = bytes.fromhex(c.get("rest", ""))

        def chain(write, read):
            w = res_of(lambda: writer_bytes(write))
            if w[0] != 0:
                return [[w, []]]
            data = w[1] + rest

            def rd():
                r = ASN1Reader(data)
                v = read(r)
                return [v, r.get_remaining_data()]

            return [[w, res_of(rd)]]

        if k == "int_rt":
            t = mk_tag(c["tag"])
            return chain(lambda w: w.write_integer(c["z"], tag=t), lambda r: r.read_integer(tag=t))
        if k == "enum_rt":
            t = mk_tag(c["tag"])

            return chain(lambda w: w.write_enumerated(c["z"], tag=t), lambda r: int(r.read_enumerated(int, tag=t)))
        if k == "int_raw":
            d = ber.tlv(0, False, 2, bytes.fromhex(c["content"]))

            def a():
                r = ASN1Reader(d)
                return [r.read_integer(), r.get_remaining_data()]

            def b():
                r = ASN1Reader(d)
                h = r.peek_header()
                return [r.read_integer(header=h), r.get_remaining_data()]

            return [res_of(a), res_of(b)]
        if k == "peek":
            d = bytes.fromhex(c["data"])
            return [res_of(lambda: r_hdr(ASN1Reader(d).peek_header()))]
        if k == "oct_rt":
            t = mk_tag(c["tag"])
            data = bytes.fromhex(c["data"])
            return chain(lambda w: w.write_octet_string(data, tag=t), lambda r: r.read_octet_string(tag=t))
        if k == "bool_raw":
            d = ber.tlv(0, False, 1, bytes.fromhex(c["content"]))

            def a():
                r = ASN1Reader(d)
                return [bool(r.read_boolean()), r.get_remaining_data()]

            def b():
                r = ASN1Reader(d)
                h = r.peek_header()
                return [bool(r.read_boolean(header=h)), r.get_remaining_data()]

            return [res_of(a), res_of(b)]
        if k == "bool_rt":
            t = mk_tag(c["tag"])
            return chain(lambda w: w.write_boolean(bool(c["b"]), tag=t), lambda r: bool(r.read_boolean(tag=t)))
        if k == "tree_rt":
            x = c["tree"]
            return chain(lambda w: write_tree(w, x), lambda r: read_tree(r, x))
        if k == "skip":
            d = bytes.fromhex(c["data"])

            def a():
                r = ASN1Reader(d)
                h = r.peek_header()
                r.skip_value(h)
                return r.get_remaining_data()

            return [res_of(a)]
        raise KeyError(k)

    # ---------------------------------------------------------------- oracle (arithmetic, independent)
    def oracle(self, c, ans):
        k = c["kind"]
        if ans and ans[0] == "!timeout":
            return "timeout"

        def X(v):
            return bytes.fromhex(v["x"])

        def tag_ok(t):
            return t is None or (0 <= t[0] <= 3 and (t[0] != 0 or t[1] in UNIVERSAL_OK))

        if k in ("int_rt", "enum_rt", "oct_rt", "bool_rt", "tree_rt"):
            w, r = ans[0]
            t = c.get("tag")
            if k == "tree_rt":
                tags_fine = all_tree_tags_ok(c["tree"])
            else:
                tags_fine = tag_ok(t)
            if w[0] != 0:
                return None if not tags_fine else f"writer raised code {w[1]} on a valid value"
            if not tags_fine:
                return None  # unreadable tag by the API's own typing: not claimed
            if r[0] != 0:
                return f"reading back what was written raised code {r[1]}"
            val, rest = r[1]
            if X(rest) != bytes.fromhex(c["rest"]):
                return "reader consumed beyond (or short of) the value it returned"
            if k in ("int_rt", "enum_rt"):
                if val != c["z"]:
                    return f"integer {c['z']} read back as {val}"
                # minimal two's complement content, checked arithmetically
                dflt = 2 if k == "int_rt" else 10
                tt = t or [0, dflt, 0]
                exp = ber.tlv(tt[0], bool(tt[2]), tt[1], ber.enc_int(c["z"]))
                if X(w[1]) != exp:
                    return "written integer is not the minimal two's-complement TLV"
            elif k == "oct_rt":
                if X(val) != bytes.fromhex(c["data"]):
                    return "octet string changed in the round trip"
                tt = t or [0, 4, 0]
                if X(w[1]) != ber.tlv(tt[0], bool(tt[2]), tt[1], bytes.fromhex(c["data"])):
                    return "written TLV is not identifier + minimal definite length + content"
            elif k == "bool_rt":
                if bool(val) != bool(c["b"]):
                    return "boolean changed in the round trip"
            elif k == "tree_rt":
                if val != canon_tree(c["tree"]):
                    return "nested value changed in the round trip"
            return None
        if k == "int_raw":
            content = bytes.fromhex(c["content"])
            for a in ans:
                if not content:
                    if a != [1, 1]:
                        return "empty INTEGER content must be a ValueError"
                else:
                    if a[0] != 0 or a[1][0] != int.from_bytes(content, "big", signed=True) or X(a[1][1]) != b"":
                        return f"content {content.hex()} does not read as its two's-complement value"
            return None
        if k == "bool_raw":
            content = bytes.fromhex(c["content"])
            for a in ans:
                if a[0] != 0 or bool(a[1][0]) != (content != b"\x00"):
                    return "boolean content not read as (content != 00)"
            return None
        if k in ("peek", "skip"):
            d = bytes.fromhex(c["data"])
            a = ans[0]
            try:
                cls, cons, num, hl, ln = ber.parse_header(d)
            except ber.Incomplete:
                # a universal tag number outside the table may be rejected before the length is missed
                return None if a[0] == 1 and a[1] in (3, 1) else "incomplete header not reported as NotEnougData"
            except ber.Malformed:
                return None if a[0] == 1 and a[1] == 1 else "indefinite length not rejected with ValueError"
            if cls == 0 and num not in UNIVERSAL_OK:
                return None if a == [1, 1] else "unknown universal tag number not rejected with ValueError"
            if k == "peek":
                if a != [0, [[cls, num, int(cons)], hl, ln]]:
                    return "header read differs from the identifier/length octets"
            else:
                if a[0] != 0 or X(a[1]) != d[hl + ln :]:
                    return "skip_value did not skip exactly header+content"
            return None
        return None

    def classify(self, c):
        return c["kind"]

    def nontrivial(self, c):
        k = c["kind"]
        if k in ("int_rt", "enum_rt"):
            return abs(c["z"]) > 127 or (c["tag"] is not None and c["tag"][1] >= 31)
        if k == "oct_rt":
            return len(c["data"]) >= 256 or (c["tag"] is not None and c["tag"][1] >= 31)
        if k == "tree_rt":
            return c["tree"][0] in (5, 6)
        return True

    def shrink(self, c):
        if c["kind"] == "tree_rt" and c["tree"][0] in (5, 6):
            for kid in c["tree"][2]:
                yield {**c, "tree": kid}
            for i in range(len(c["tree"][2])):
                t = c["tree"]
                yield {**c, "tree": [t[0], t[1], t[2][:i] + t[2][i + 1 :]]}
        if c.get("rest"):
            yield {**c, "rest": ""}


def all_tree_tags_ok(x):
    t = x[1]
    ok = t is None or (0 <= t[0] <= 3 and (t[0] != 0 or t[1] in UNIVERSAL_OK))
    if x[0] in (5, 6):
        return ok and all(all_tree_tags_ok(k) for k in x[2])
    return ok


def canon_tree(x):
    from lib.framework import canon

    k = x[0]
    t = [] if x[1] is None else [[x[1][0], x[1][1], int(bool(x[1][2]))]]
    if k in (5, 6):
        return [k, t, [canon_tree(c) for c in x[2]]]
    if k == 4:
        return [k, t, {"x": x[2]}]
    if k == 3:
        return [k, t, int(bool(x[2]))]
    return [k, t, x[2]]


PROP = C07()
