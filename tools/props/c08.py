"""C08 -- session lifecycle follows the documented state machine; CLOSED is final."""
from __future__ import annotations

from lib import msgs, sessions
from props.session_common import BEFORE_OPEN, BINDING, CLOSED, OPENED, SessionProp, X
from lib.sessions import (C_BIND, C_EXT, C_SEARCH, CLIENT, DRAIN, RECV, S_BINDRESP, S_DONE, S_ENTRY, S_EXTRESP, S_REF,
                          SEND_CALLS, SERVER, UNBIND)


def is_notice_call(call):
    return call[0] == S_EXTRESP and call[2] == [msgs.OID_NOTICE]


class C08(SessionProp):
    id = "C08"
    prop_file = "Props/C08"
    unenc = 0.04
    rule = (
        "corpus of 300-cycle histories and >64 KiB queues (1% of the seeded ones too); seeded histories (1-14 calls) of client and server sessions, extended requests named with the notice OID, every RFC 4511 result code: every request/response method with ids drawn "
        "from outstanding / retired / never-issued / 0, unbind, drains, deliveries of well-formed, chunked, corrupted "
        "and random bytes, including calls after rejections and after closure; a trace monitor written from the "
        "documented state diagram judges the implementation's trace; non-trivial = 3+ calls"
    )

    def corpus(self):
        T = msgs.g_text
        return [
            {"role": 0, "calls": [[UNBIND], [C_BIND, b"a", [0, b"b"], []], [DRAIN, []]], "meta": [None] * 3},
            {"role": 1, "calls": [[UNBIND], [S_BINDRESP, 1, [], 0, b"", b"", []], [DRAIN, []]], "meta": [None] * 3},
            {"role": 1, "calls": [[S_EXTRESP, 5, [], [], 0, b"", b"", []], [DRAIN, []]], "meta": [None] * 2},
            # a request that merely carries the notice-of-disconnection OID is still a request while BINDING
            {"role": 0, "calls": [[C_BIND, b"a", [1, b"GSSAPI", [b"x"]], []], [C_EXT, msgs.OID_NOTICE, [], []], [DRAIN, []]], "meta": [None] * 3},
        ] + [
            # the server's own notice of disconnection, name given as OID string / as enum member (two parities of
            # the call's repr, see sessions._variant), then more traffic: CLOSED must be final either way
            {"role": 1, "calls": [[RECV, msgs.pack([1, [7, b"1.2", []], []])], [S_EXTRESP, 1, [msgs.OID_NOTICE], [], 52, b"", d, []],
                                  [RECV, msgs.pack([2, [7, b"1.2", []], []])], [S_EXTRESP, 2, [], [], 0, b"", b"", []], [UNBIND], [DRAIN, []]],
             "meta": [None] * 6}
            for d in (b"bye", b"bye!", b"", b"x")
        ] + sessions.boundary_histories()

    def finding_key(self, c, what):
        # only the pinned behaviour: a server response refused for an unknown id on a BEFORE_OPEN session
        if "opened without any traffic" in what and c["role"] == SERVER and self._only_refused_open(c):
            return "rejected-response-opens-session"
        return None

    def _only_refused_open(self, c):
        trace = sessions.run_history(c["role"], c["calls"])
        for i, call, o, st, out, st2, out2 in self.steps(c, [[o, [s[0], {"x": s[1].hex()}]] for o, s in trace]):
            if st == BEFORE_OPEN and st2 == OPENED and o == [4] and call[0] in (S_BINDRESP, S_EXTRESP, S_ENTRY, S_REF, S_DONE):
                return True
        return False

    def oracle(self, c, ans):
        if ans and ans[0] == "!timeout":
            return "timeout"
        trace = ans[0]
        role = c["role"]
        open_ids = set()      # monitor's own bookkeeping of operations in progress
        searches = set()
        known = None
        meta = c.get("meta") or [None] * len(c["calls"])
        for i, call, o, st, out, st2, out2 in self.steps(c, trace):
            k = call[0]
            accepted_send = k in SEND_CALLS and o[0] in (0, 1)
            if meta[i] == "unenc" and st != CLOSED:
                # a call whose text cannot be encoded: it must be refused and is no event of the state machine
                if accepted_send:
                    return f"step {i}: a call whose text argument has no UTF-8 form was accepted"
                if st2 != st or out2 != out:
                    return f"step {i}: a call refused for unencodable text changed the session (state {st} -> {st2})"
                continue
            recv_ok = k == RECV and o[0] == 3
            recv_msgs = o[1] if recv_ok else []
            # ---- CLOSED is final
            if st == CLOSED:
                if st2 != CLOSED:
                    return f"step {i}: session left CLOSED"
                if k in SEND_CALLS and o != [4]:
                    return f"step {i}: operation on a CLOSED session was not rejected with LDAPError"
                if k == RECV and o[0] != 5:
                    return f"step {i}: CLOSED session accepted data"
                if k != DRAIN and out2 != out:
                    return f"step {i}: CLOSED session produced bytes"
                continue
            # ---- legal transitions and their triggers
            if st2 != st:
                if st2 == BEFORE_OPEN:
                    return f"step {i}: returned to BEFORE_OPEN"
                if st2 == BINDING:
                    ok = (role == CLIENT and k == C_BIND and accepted_send) or (
                        role == SERVER and recv_ok and any(m[1][0] == 0 for m in recv_msgs)
                    )
                    if not ok:
                        return f"step {i}: entered BINDING without a bind request being sent/received"
                elif st2 == OPENED and st == BINDING:
                    ok = (role == CLIENT and recv_ok and any(m[1][0] == 1 and m[1][1][0] != 14 for m in recv_msgs)) or (
                        role == SERVER and k == S_BINDRESP and accepted_send and call[3] != 14
                    )
                    if not ok:
                        return f"step {i}: left BINDING without a final bind response"
                elif st2 == OPENED and st == BEFORE_OPEN:
                    if not (accepted_send or (recv_ok and recv_msgs)):
                        what = f"step {i}: session opened without any traffic (refused call / empty delivery)"
                        if role == SERVER and o == [4] and k in (S_BINDRESP, S_EXTRESP, S_ENTRY, S_REF, S_DONE):
                            known = known or what      # pinned by the test-suite: keep checking the rest
                        else:
                            return what
                elif st2 == CLOSED:
                    ok = (k == UNBIND and accepted_send) or (k == RECV and o[0] == 5) or (is_notice_call(call) and accepted_send)
                    if not ok:
                        return f"step {i}: closed without unbind / notice of disconnection / protocol error"
            # ---- mandatory effects
            if k == UNBIND and accepted_send and st2 != CLOSED:
                return f"step {i}: unbind did not close the session"
            if k == RECV and o[0] == 5 and st2 != CLOSED:
                return f"step {i}: protocol error did not close the session"
            if role == CLIENT and k == C_BIND and accepted_send and st2 != BINDING:
                return f"step {i}: accepted bind did not enter BINDING"
            if is_notice_call(call) and accepted_send and st2 != CLOSED:
                return f"step {i}: sent notice of disconnection did not close the session"
            # ---- bind cannot start while other operations are outstanding
            if role == CLIENT and k == C_BIND:
                if accepted_send and open_ids:
                    return f"step {i}: bind accepted with operations outstanding"
                if not accepted_send and not open_ids:
                    return f"step {i}: bind refused although nothing is outstanding"
            # ---- while BINDING nothing but bind traffic or a termination can be sent
            if st == BINDING and accepted_send:
                if not (k in (C_BIND, S_BINDRESP, UNBIND) or is_notice_call(call)):
                    return f"step {i}: non-bind message sent while BINDING"
            if role == CLIENT and st in (BEFORE_OPEN, OPENED) and k in (C_EXT, C_SEARCH) and not accepted_send:
                return f"step {i}: request refused on an open session"
            # ---- monitor bookkeeping
            if role == CLIENT:
                if accepted_send and k in (C_BIND, C_EXT, C_SEARCH):
                    open_ids.add(o[1])
                    if k == C_SEARCH:
                        searches.add(o[1])
                for m in recv_msgs:
                    mid, kind = m[0], m[1][0]
                    if mid in searches and kind != 5:
                        continue
                    open_ids.discard(mid)
                    searches.discard(mid)
            else:
                for m in recv_msgs:
                    if m[1][0] == 0 and open_ids - {m[0]} and False:
                        pass
                    open_ids.add(m[0])
                if accepted_send and k in (S_BINDRESP, S_EXTRESP, S_DONE):
                    open_ids.discard(call[1])
                # a BindRequest received while operations are outstanding must be a protocol error
                mt = (c.get("meta") or [None] * len(c["calls"]))[i]
                if k == RECV and mt and len(mt) == 1 and mt[0][1] == 0 and open_ids - ({mt[0][0]} if recv_ok else set()) and recv_ok:
                    return f"step {i}: bind request accepted by the server with operations outstanding"
            if st2 == CLOSED:
                open_ids.clear()
                searches.clear()
        return known


PROP = C08()
