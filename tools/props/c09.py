"""C09 -- client correlates responses to requests strictly by message ID."""
from __future__ import annotations

from lib import msgs, sessions
from props.session_common import BEFORE_OPEN, BINDING, CLOSED, OPENED, SessionProp, X
from lib.sessions import C_BIND, C_EXT, C_SEARCH, CLIENT, DRAIN, RECV, SEND_CALLS, UNBIND


class C09(SessionProp):
    id = "C09"
    prop_file = "Props/C09"
    unenc = 0.04
    gen_role = CLIENT
    rule = (
        "corpus of 300-cycle histories replaying retired ids >= 257 and of >64 KiB queues; seeded client histories (1-14 calls, 1% long/large as in the corpus): bind/search/extended requests interleaved with deliveries of server "
        "messages of every kind carrying ids drawn from outstanding / completed / never issued / 0 / huge, several "
        "messages per delivery, plus request-type messages, chunked and corrupted deliveries and refused calls; an "
        "independent bookkeeping of operations in progress judges every acceptance and every ProtocolError; "
        "non-trivial = 3+ calls"
    )

    def oracle(self, c, ans):
        if ans and ans[0] == "!timeout":
            return "timeout"
        if c["role"] != CLIENT:
            return None
        trace = ans[0]
        meta = c.get("meta") or [None] * len(c["calls"])
        next_id = 1
        inprog = {}  # id -> 'search' | 'other'
        for i, call, o, st, out, st2, out2 in self.steps(c, trace):
            k = call[0]
            if k in (C_BIND, C_EXT, C_SEARCH):
                if o[0] == 0:
                    if o[1] != next_id:
                        return f"step {i}: request returned id {o[1]}, expected {next_id}"
                    if not (o[1] > 0):
                        return f"step {i}: non-positive message id"
                    info = sessions.first_tlv_id_and_op(out2[len(out):]) if out2.startswith(out) else None
                    if info is None or info[0] != o[1]:
                        return f"step {i}: bytes emitted do not carry the returned id"
                    inprog[o[1]] = "search" if k == C_SEARCH else "other"
                    next_id += 1
                continue
            if k != RECV or st == CLOSED:
                if st2 == CLOSED:
                    inprog.clear()
                continue
            mt = meta[i]
            if o[0] == 3:
                got = o[1]
                if mt is not None and [m[0] for m in got] != [x[0] for x in mt]:
                    return f"step {i}: returned messages differ from the delivered ones"
                for m in got:
                    mid, kind = m[0], m[1][0]
                    if kind in (0, 2, 3, 7):
                        return f"step {i}: a request-type message was accepted by the client"
                    if mid not in inprog:
                        return f"step {i}: response for id {mid} accepted although no such operation is in progress"
                    if inprog[mid] == "search" and kind != 5:
                        continue  # a search stays in progress until its SearchResultDone
                    del inprog[mid]
            elif o[0] == 5:
                if st2 != CLOSED:
                    return f"step {i}: protocol error left the session open"
                if mt is not None:
                    # every delivered message was a legitimate response to an operation in progress?
                    sim = dict(inprog)
                    legit = True
                    for mid, kind, rc, notice in mt:
                        if notice or kind in (0, 2, 3, 7) or mid not in sim:
                            legit = False
                            break
                        if not (sim[mid] == "search" and kind != 5):
                            del sim[mid]
                    if legit:
                        return f"step {i}: protocol error on legitimate responses {[(m[0], m[1]) for m in mt]}"
                inprog.clear()
            if st2 == CLOSED:
                inprog.clear()
        return None


PROP = C09()
