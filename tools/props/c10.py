"""C10 -- rejected calls have no wire effect; servers answer only open requests."""
from __future__ import annotations

from lib import msgs, sessions
from props.session_common import BEFORE_OPEN, BINDING, CLOSED, OPENED, SessionProp, X
from lib.sessions import (C_BIND, C_EXT, C_SEARCH, CLIENT, DRAIN, RECV, S_BINDRESP, S_DONE, S_ENTRY, S_EXTRESP, S_REF,
                          SEND_CALLS, SERVER, UNBIND)


class C10(SessionProp):
    id = "C10"
    prop_file = "Props/C10"
    unenc = 0.04
    rule = (
        "corpus: unsolicited-notification shapes (id 0, notice name, codes 2/8/52/80/0), 300-cycle histories replaying retired ids >= 257, >64 KiB queues; seeded histories (1-14 calls) of server and client sessions with every response kind x every RFC 4511 result code x every candidate id "
        "(outstanding, retired, never received, 0, negative, huge) in every state, after rejections and closure; after "
        "each call the pending bytes are read from a deep-copied clone; non-trivial = 3+ calls"
    )

    def corpus(self):
        return [
            {"role": 1, "calls": [[S_EXTRESP, 5, [], [], 0, b"", b"", []]], "meta": [None]},
            {"role": 1, "calls": [[RECV, msgs.pack([1, [7, b"1.2", []], []])], [S_DONE, 1, 0, b"", b"", []], [S_DONE, 1, 0, b"", b"", []]], "meta": [None] * 3},
            {"role": 1, "calls": [[RECV, msgs.pack([1, [3, b"", 2, 0, 0, 0, False, [7, b"a"], []], []]) + msgs.pack([2, [7, b"1.2", []], []])],
                                  [S_ENTRY, 1, b"cn=x", [], []], [S_EXTRESP, 1, [], [], 0, b"", b"", []], [S_ENTRY, 1, b"cn=x", [], []]], "meta": [None] * 4},
        ] + [
            # unsolicited-notification shapes: the property knows no exemption for id 0
            {"role": 1, "calls": [[RECV, msgs.pack([1, [7, b"1.2", []], []])], [S_EXTRESP, 0, [msgs.OID_NOTICE], [], rc, b"", b"bye", []], [DRAIN, []]], "meta": [None] * 3}
            for rc in (2, 8, 52, 80, 0)
        ] + sessions.boundary_histories(SERVER)

    def oracle(self, c, ans):
        if ans and ans[0] == "!timeout":
            return "timeout"
        trace = ans[0]
        role = c["role"]
        outstanding = set()
        meta = c.get("meta") or [None] * len(c["calls"])
        for i, call, o, st, out, st2, out2 in self.steps(c, trace):
            k = call[0]
            if k in SEND_CALLS:
                if o[0] in (0, 1):
                    if role == SERVER and k != UNBIND:
                        mid = call[1]
                        if mid not in outstanding:
                            return f"step {i}: server emitted a response for id {mid} which is not outstanding"
                        if k not in (S_ENTRY, S_REF):
                            outstanding.discard(mid)
                else:
                    if o[0] == 6 and meta[i] != "unenc":
                        return f"step {i}: a refused call failed with a foreign exception (code {o[1]})"
                    if out2 != out:
                        return f"step {i}: a refused call changed the outgoing byte stream"
            elif k == RECV and role == SERVER and o[0] == 3:
                for m in o[1]:
                    outstanding.add(m[0])
            if st2 == CLOSED:
                outstanding.clear()
        return None


PROP = C10()
