"""C11 -- a client and a server session interoperate under any interleaving."""
from __future__ import annotations

import copy
import random

from lib import msgs, sessions
from lib.framework import canon
from lib.sessions import (C_BIND, C_EXT, C_SEARCH, CLIENT, RECV, S_BINDRESP, S_DONE, S_ENTRY, S_EXTRESP, S_REF, SERVER,
                          UNBIND)
from props.c01 import norm_msg
from props.session_common import CLOSED, SessionProp, X


def gen_schedule(rng, length):
    """Abstract schedule; concrete ids/bytes are resolved while it is executed."""
    ev = []
    for _ in range(length):
        r = rng.random()
        if r < 0.30:
            ev.append(["c", rng.choice(["bind", "ext", "ext", "search", "search"]), rng.getrandbits(32)])
        elif r < 0.55:
            ev.append(["s", rng.choice(["final", "final", "entry", "ref"]), rng.getrandbits(32)])
        elif r < 0.77:
            ev.append(["d", "c2s", rng.choice([1, 2, 3, 7, 20, 64, None, None]), 0])
        elif r < 0.99:
            ev.append(["d", "s2c", rng.choice([1, 2, 3, 7, 20, 64, None, None]), 0])
        elif r < 0.995:
            ev.append(["c", "unbind", 0])
        else:
            ev.append(["c", "bind-unencodable", rng.getrandbits(32)])
    # flush
    for _ in range(3):
        ev.append(["d", "c2s", None, 0])
        ev.append(["d", "s2c", None, 0])
    return ev


def execute(schedule):
    """Runs the schedule on two real sessions joined by byte pipes.  Returns everything observed."""
    import sansldap

    c, s = sansldap.LDAPClient(), sansldap.LDAPServer()
    c2s, s2c = bytearray(), bytearray()
    sent_c, sent_s, got_c, got_s = [], [], [], []
    kinds = {}         # id -> request kind as seen by the server application
    open_srv = []      # ids the server application may still answer
    hist_c, hist_s = [], []   # concrete call histories (for the model)
    problems = []
    closed = False
    for ev in schedule:
        if ev[0] == "c":
            if c.state.name == "CLOSED":
                continue
            rng = random.Random(ev[2])
            if ev[1] == "bind-unencodable":
                # text that has no UTF-8 form (PEP 383 surrogates from argv / environ): the call must be refused with
                # no effect at all - if it is accepted the peer is sent octets it rejects
                norm = lambda p: [2 if p[0] == 0 else p[0], p[1]]  # noqa: E731  not-yet-opened and opened alike (C11)
                before = norm(sessions.probe(c))
                pw = rng.choice(["s3cr\udce9t", "\udcff", "pass\ud800word"])
                try:
                    if rng.random() < 0.5:
                        c.bind_simple("cn=x", pw)
                    else:
                        c.bind_simple("cn=" + pw, "pw")
                    problems.append("a bind whose text cannot be encoded was accepted")
                except BaseException:  # noqa: BLE001
                    if norm(sessions.probe(c)) != before:
                        problems.append("a bind refused for unencodable text changed the session")
                c2s += c.data_to_send()
                continue
            if ev[1] == "bind":
                call = [C_BIND, msgs.g_text(rng), msgs.g_cred(rng), msgs.g_controls(rng) if rng.random() < 0.3 else []]
                op = [0, 3, call[1], call[2]]
            elif ev[1] == "ext":
                call = [C_EXT, b"1.2.3", msgs.opt(None if rng.random() < 0.5 else msgs.g_octets(rng)), msgs.g_controls(rng) if rng.random() < 0.3 else []]
                op = [7, call[1], call[2]]
            elif ev[1] == "search":
                o = msgs.g_op(rng, 3, depth=rng.choice([0, 1, 2]))
                call = [C_SEARCH] + o[1:] + [msgs.g_controls(rng) if rng.random() < 0.3 else []]
                op = o
            else:
                call = [UNBIND]
                op = [2]
            hist_c.append(call)
            o = sessions.outcome_of(c, call)
            if o[0] in (0, 1):
                mid = o[1] if o[0] == 0 else 0
                sent_c.append([mid, op, call[-1] if call[0] != UNBIND else []])
            c2s += c.data_to_send()
            hist_c.append([sessions.DRAIN, []])
        elif ev[0] == "s":
            if not open_srv or s.state.name == "CLOSED":
                continue
            rng = random.Random(ev[2])
            mid = rng.choice(open_srv)
            k = kinds[mid]
            cs = msgs.g_controls(rng) if rng.random() < 0.3 else []
            code = rng.choice([0, 0, 49, 14])
            if k == 3 and ev[1].startswith("bigentry"):
                size = int(ev[1].split(":")[1])
                o = [4, b"cn=photo", [[b"jpegPhoto", [bytes([ev[2] & 0xFF]) * size]]]]
                call = [S_ENTRY, mid, o[1], o[2], []]
                op = o
                cs = []
            elif k == 3 and ev[1] in ("entry", "ref"):
                if ev[1] == "entry":
                    o = msgs.g_op(rng, 4)
                    call = [S_ENTRY, mid, o[1], o[2], cs]
                    op = o
                else:
                    o = msgs.g_op(rng, 6)
                    call = [S_REF, mid, o[1], cs]
                    op = o
            elif k == 3:
                call = [S_DONE, mid, code if code != 14 else 0, b"", msgs.g_text(rng), cs]
                op = [5, [call[2], b"", call[4], [[]]]]
            elif k == 0:
                sasl = msgs.opt(None if rng.random() < 0.6 else msgs.g_octets(rng))
                call = [S_BINDRESP, mid, sasl, code, b"", msgs.g_text(rng), cs]
                op = [1, [code, b"", call[5], [[]]], sasl]
            else:
                call = [S_EXTRESP, mid, [], msgs.opt(None if rng.random() < 0.6 else msgs.g_octets(rng)), code if code != 14 else 0, b"", msgs.g_text(rng), cs]
                op = [8, [call[4], b"", call[6], [[]]], [], call[3]]
            hist_s.append(call)
            o = sessions.outcome_of(s, call)
            if o[0] == 0:
                sent_s.append([mid, op, cs])
                if call[0] not in (S_ENTRY, S_REF):
                    open_srv.remove(mid)
            elif not closed:
                problems.append(f"server refused a response of the matching kind to outstanding request {mid}: {o}")
            s2c += s.data_to_send()
            hist_s.append([sessions.DRAIN, []])
        else:
            pipe, sess, got, hist = (c2s, s, got_s, hist_s) if ev[1] == "c2s" else (s2c, c, got_c, hist_c)
            if sess.state.name == "CLOSED":
                continue      # the application stops using a terminated session
            n = len(pipe) if ev[2] is None else min(ev[2], len(pipe))
            data = bytes(pipe[:n])
            del pipe[:n]
            hist.append([RECV, data])
            o = sessions.outcome_of(sess, [RECV, data])
            if o[0] == 3:
                got.extend(o[1])
                if sess is s:
                    for m in o[1]:
                        if m[1][0] in (0, 3, 7):
                            kinds[m[0]] = m[1][0]
                            open_srv.append(m[0])
            elif o[0] == 5:
                # designed terminations only: the peer's unbind
                expected = sess is s and any(x[1] == [2] for x in sent_c)
                if not expected:
                    problems.append(f"unexpected ProtocolError on the {'server' if sess is s else 'client'} side")
                closed = True
                open_srv.clear()
            else:
                problems.append(f"receive ended with {o}")
    if c.state.name == "CLOSED" or s.state.name == "CLOSED":
        closed = True
    quiescent = not c2s and not s2c
    return dict(c=c, s=s, sent_c=sent_c, sent_s=sent_s, got_c=got_c, got_s=got_s, hist_c=hist_c, hist_s=hist_s,
                problems=problems, quiescent=quiescent, closed=closed)


def in_progress_client(c, upto):
    import sansldap

    out = set()
    for mid in range(1, upto + 1):
        k = copy.deepcopy(c)
        data = msgs.pack([mid, [4, b"", []], []])   # an entry never retires a search and retires anything else: harmless on a clone
        try:
            k.receive(data)
            out.add(mid)
        except sansldap.ProtocolError:
            pass
    return out


def outstanding_server(s, upto):
    import sansldap

    out = set()
    for mid in range(1, upto + 1):
        k = copy.deepcopy(s)
        try:
            k.bind_response(mid)
            out.add(mid)
        except sansldap.LDAPError:
            pass
    return out


class C11(SessionProp):
    id = "C11"
    prop_file = "Props/C11"
    level = "proof"
    quick_n = 500
    thorough_n = 15000
    rule = (
        "seeded joint histories (10-60 events) of a real LDAPClient and LDAPServer joined by two byte pipes: client "
        "requests (bind / extended / search, pipelined, incl. calls the session refuses), server responses of the "
        "matching kind to requests it has received (entries, references, final responses, SASL-in-progress binds), "
        "corpus: a search entry of 256-300 KiB delivered in 3-6 parts; deliveries of 1,2,3,7,20,64 or all pending octets in either direction at any time, an occasional unbind; both "
        "sides' concrete call/delivery histories are replayed on the extracted model; non-trivial = 10+ events"
    )

    def generate(self, rng, n, tier):
        return [{"schedule": gen_schedule(rng, rng.randint(10, 60))} for _ in range(n)]

    def corpus(self):
        # one message of 256 KiB and more, handed over in three and more deliveries, between ordinary traffic
        out = []
        for size, chunk in ((262100, 100000), (262144, 90000), (300000, 100000), (300000, 65536), (270000, 262143)):
            sch = [["c", "search", 7], ["d", "c2s", None, 0], ["s", f"bigentry:{size}", 5], ["c", "ext", 11]]
            sch += [["d", "s2c", chunk, 0] for _ in range(size // chunk + 2)]
            sch += [["d", "c2s", None, 0], ["s", "final", 9], ["s", "final", 10], ["d", "s2c", None, 0], ["d", "c2s", None, 0], ["d", "s2c", None, 0]]
            out.append({"schedule": sch})
        return out

    def _run(self, c):
        if "_res" not in c:
            c["_res"] = execute(c["schedule"])
        return c["_res"]

    def model_requests(self, c):
        r = self._run(c)
        return [[110, 0, r["hist_c"]], [110, 1, r["hist_s"]]]

    def normalize_model(self, c, answers):
        out = []
        for a in answers:
            if isinstance(a, str):
                out.append(a)
            else:
                out.append([[o, snap[:2]] for o, snap in a])
        return out

    def impl_run(self, c):
        r = self._run(c)
        return [sessions.run_history(0, r["hist_c"]), sessions.run_history(1, r["hist_s"])]

    def oracle(self, c, ans):
        if ans and ans[0] == "!timeout":
            return "timeout"
        r = execute(c["schedule"])
        if r["problems"]:
            return r["problems"][0]
        want_s = canon([norm_msg(m) for m in r["sent_c"]])
        if canon(r["got_s"]) != want_s[: len(r["got_s"])]:
            return "server did not receive the client's messages exactly once, in order, as equal values"
        want_c = canon([norm_msg(m) for m in r["sent_s"]])
        if canon(r["got_c"]) != want_c[: len(r["got_c"])]:
            return "client did not receive the server's messages exactly once, in order, as equal values"
        if r["quiescent"] and not r["closed"]:
            if len(r["got_s"]) != len(r["sent_c"]) or len(r["got_c"]) != len(r["sent_s"]):
                return "all bytes delivered but not every message sent was received"
            st_c, st_s = sessions.probe(r["c"])[0], sessions.probe(r["s"])[0]
            norm = lambda x: 2 if x == 0 else x  # noqa: E731  BEFORE_OPEN ~ OPENED
            if norm(st_c) != norm(st_s):
                return f"at quiescence the two sides disagree on the state: client {st_c} server {st_s}"
            upto = len(r["sent_c"]) + 2
            a, b = in_progress_client(r["c"], upto), outstanding_server(r["s"], upto)
            if a != b:
                return f"at quiescence operations in progress differ: client {sorted(a)} server {sorted(b)}"
        return None

    def classify(self, c):
        return f"events{min(len(c['schedule']) // 20 * 20, 60)}"

    def nontrivial(self, c):
        return len(c["schedule"]) >= 10

    def shrink(self, c):
        ev = c["schedule"]
        for i in range(len(ev) - 7, -1, -1):
            yield {"schedule": ev[:i] + ev[i + 1 :]}


PROP = C11()
