"""C12 -- outgoing bytes are delivered exactly once, in order, however they are drained."""
from __future__ import annotations

from lib import sessions
from props.session_common import *  # noqa: F401,F403
from props.session_common import SessionProp, X


class C12(SessionProp):
    id = "C12"
    prop_file = "Props/C12"
    unenc = 0.04
    rule = (
        "seeded histories (1-14 calls) of client or server sessions interleaving send calls, deliveries and "
        "data_to_send(amount) with amount in {None,0,1,2,5,16,1000,-1,-3,65536,70000}; corpus and 1% family of long histories (257-330 complete request/response cycles, then replays of retired ids) and of 64-128 KiB queues handed out by partial drains with refused sends in between; the implementation is driven through its "
        "public API and observed through state and a deep-copied clone's data_to_send(); non-trivial = 3+ calls"
    )

    def oracle(self, c, ans):
        if ans and ans[0] == "!timeout":
            return "timeout"
        trace = ans[0]
        drained = b""
        sent = b""
        for i, call, o, st, out, st2, out2 in self.steps(c, trace):
            k = call[0]
            if k == sessions.DRAIN:
                if o[0] != 2:
                    return f"step {i}: data_to_send raised"
                d = X(o[1])
                if d + out2 != out:
                    return f"step {i}: drained bytes + remaining != pending before the drain"
                if st2 != st:
                    return f"step {i}: draining changed the session state"
                drained += d
            elif k in sessions.SEND_CALLS:
                if o[0] in (0, 1):  # accepted
                    if not out2.startswith(out):
                        return f"step {i}: an accepted send altered bytes already pending"
                    delta = out2[len(out) :]
                    info = sessions.first_tlv_id_and_op(delta)
                    if info is None:
                        return f"step {i}: an accepted send did not append exactly one well-framed message"
                    if info[2] != sessions.CALL_OPNUM[k]:
                        return f"step {i}: appended message has protocolOp {info[2]}"
                    sent += delta
                else:
                    if out2 != out:
                        return f"step {i}: a refused send changed the pending bytes"
            else:
                if out2 != out:
                    return f"step {i}: receive changed the pending bytes"
        final = X(trace[-1][1][1]) if trace else b""
        if drained + final != sent:
            return "concatenation of drained bytes + pending differs from the accepted sends"
        return None


PROP = C12()
