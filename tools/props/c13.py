"""C13 -- filter objects survive conversion to text and back (no filter injection)."""
from __future__ import annotations

from lib import msgs
from lib.framework import Prop, canon, res_of
from oracle import rfc4515
from props.filter_common import parse_impl


class C13(Prop):
    id = "C13"
    prop_file = "Props/C13"
    level = "proof"
    binary_cases = True
    quick_n = 2500
    thorough_n = 60000
    rule = (
        "seeded filter trees (10 node kinds, depth 0-5, fan-out 1-4) with RFC 4512-valid attribute descriptions "
        "(descriptors, numeric OIDs, options) and hostile values (NUL, parentheses, asterisks, backslashes, ':' '=' "
        "'~', control and non-UTF-8 octets, specials at substring component boundaries, values ending in a backslash); "
        "str(filter) and LDAPFilter.from_string are compared with the extracted model, and the text is also parsed by "
        "an independent RFC 4515 reference parser; every from_string is made twice with the first result modified in place in between (a parser is a function of its text); non-trivial = a value contains an octet that needs escaping or "
        "depth > 1"
    )
    assumptions = [
        "well-formed trees only: non-empty and/or lists, substring filters with at least one non-empty component and no empty components, extensible matches with an attribute or a rule whose rule is not literally 'dn' without the dn flag (none of the excluded trees has an RFC 4515 text form)",
    ]

    def corpus(self):
        cs = [
            [4, b"cn", [b"a*b"], [], []],
            [4, b"cn", [b"*"], [b"**", b"\\2a"], [b")("]],
            [3, b"cn", b"x\\"],
            [3, b"cn", b""],
            [9, [b"dn"], [b"cn"], b":=", True],
            [0, [[2, [3, b"a", b"b)(c=d"]], [7, b"objectClass"]]],
            [1, [[3, b"uid", b"u%d" % i] for i in range(600)]],
        ]
        return [{"kind": "tree", "f": f} for f in cs]

    def generate(self, rng, n, tier):
        out = []
        for _ in range(n):
            if rng.random() < 0.004:
                # wide and shallow: hundreds to thousands of items under one operator (a bulk lookup)
                k = rng.choice([300, 501, 600, 1200, 2500])
                items = [[3, b"uid", b"u%d" % i] for i in range(k)]
                out.append({"kind": "tree", "f": [rng.choice([0, 1]), items]})
            else:
                out.append({"kind": "tree", "f": rfc4515.g_tree(rng, rng.choice([0, 1, 2, 3, 5]))})
        return out

    def model_requests(self, c):
        return [[202, c["f"]]]

    def impl_run(self, c):
        def go():
            text = str(msgs.mk_filter(c["f"]))
            return [text.encode("utf-8"), parse_impl(text)]

        r = res_of(go)
        return [r[1] if r[0] == 0 else r]

    def oracle(self, c, ans):
        if ans and ans[0] == "!timeout":
            return "timeout"
        a = ans[0]
        if not (isinstance(a, list) and len(a) == 2 and isinstance(a[0], dict)):
            return f"printing raised: {a}"
        text = bytes.fromhex(a[0]["x"])
        back = a[1]
        if back[0] != 0:
            return f"the filter's own text form {text!r} does not parse: {back}"
        if back[1] != canon(c["f"]):
            return f"parsing the text form {text!r} yields a different filter"
        try:
            ref = rfc4515.parse(text, min_arcs=2)
        except rfc4515.NotASentence as e:
            return f"text form {text!r} is not an RFC 4515 sentence: {e}"
        if canon(ref) != canon(c["f"]):
            return f"text form {text!r} denotes a different filter under the RFC 4515 grammar"
        return None

    def classify(self, c):
        return ["and", "or", "not", "eq", "substr", "ge", "le", "present", "approx", "ext"][c["f"][0]]

    def nontrivial(self, c):
        return msgs.filter_depth(c["f"]) > 1 or b"\\" in msgs.mk_filter(c["f"]).__str__().encode()

    def shrink(self, c):
        f = c["f"]
        if f[0] in (0, 1):
            for x in f[1]:
                yield {**c, "f": x}
        if f[0] == 2:
            yield {**c, "f": f[1]}


PROP = C13()
