"""C14 -- filter text is parsed as RFC 4515 defines it."""
from __future__ import annotations

import random

from lib import msgs
from lib.framework import Prop, canon
from oracle import rfc4511, rfc4515
from props.filter_common import cps, parse_impl

WS = [" ", "  ", "\t", "\n", "\r\n", "\u3000", "\x1c", "\u2003 "]


class C14(Prop):
    id = "C14"
    prop_file = "Props/C14"
    level = "proof"
    binary_cases = True
    quick_n = 2500
    thorough_n = 60000
    case_timeout = 20.0
    rule = (
        "seeded sentences of the RFC 4515 grammar: trees of all productions (depth 0-6, one linear family to depth "
        "150) printed by an independent sentence generator that chooses, per value octet, raw / escaped form and hex "
        "case (raw UTF-8 only for valid sequences), with options and numeric OIDs, optionally decorated with the "
        "tolerated spaces (any whitespace around the string; ASCII spaces after '(', around an operator, between and "
        "after sub-filters); the parse result is compared with the tree the sentence was generated from, with the "
        "independent reference parser (undecorated sentences) and with the extracted model; the SearchRequest bytes "
        "are compared with an independent RFC 4511 encoding of that tree; every from_string is made twice with the first result modified in place in between; non-trivial = decorated, escaped or nested"
    )
    assumptions = [
        "interpretation choices (DESIGN.md C13-C15): an empty substring component is 'absent' for initial/final and not derivable for any; ':dn' is matched case-sensitively and takes priority over a matching rule spelled 'dn'",
    ]

    def corpus(self):
        rng = random.Random(5)
        out = []
        for text, tree in [
            (b"(cn=Babs Jensen)", [3, b"cn", b"Babs Jensen"]),
            (b"(!(cn=Tim Howes))", [2, [3, b"cn", b"Tim Howes"]]),
            (b"(&(objectClass=Person)(|(sn=Jensen)(cn=Babs J*)))", [0, [[3, b"objectClass", b"Person"], [1, [[3, b"sn", b"Jensen"], [4, b"cn", [b"Babs J"], [], []]]]]]),
            (b"(o=univ*of*mich*)", [4, b"o", [b"univ"], [b"of", b"mich"], []]),
            (b"(seeAlso=)", [3, b"seeAlso", b""]),
            (b"(cn:caseExactMatch:=Fred Flintstone)", [9, [b"caseExactMatch"], [b"cn"], b"Fred Flintstone", False]),
            (b"(cn:=Betty Rubble)", [9, [], [b"cn"], b"Betty Rubble", False]),
            (b"(sn:dn:2.4.6.8.10:=Barney Rubble)", [9, [b"2.4.6.8.10"], [b"sn"], b"Barney Rubble", True]),
            (b"(o:dn:=Ace Industry)", [9, [], [b"o"], b"Ace Industry", True]),
            (b"(:1.2.3:=Wilma Flintstone)", [9, [b"1.2.3"], [], b"Wilma Flintstone", False]),
            (b"(:DN:2.4.6.8.10:=Dino)", None),
            (b"(o=Parens R Us \\28for all your parenthetical needs\\29)", [3, b"o", b"Parens R Us (for all your parenthetical needs)"]),
            (b"(cn=*\\2A*)", [4, b"cn", [], [b"*"], []]),
            (b"(filename=C:\\5cMyFile)", [3, b"filename", b"C:\\MyFile"]),
            (b"(bin=\\00\\00\\00\\04)", [3, b"bin", b"\x00\x00\x00\x04"]),
            (b"(sn=Lu\\c4\\8di\\c4\\87)", [3, b"sn", "Lučić".encode()]),
            (b"(1.3.6.1.4.1.1466.0=\\04\\02\\48\\69)", [3, b"1.3.6.1.4.1.1466.0", b"\x04\x02Hi"]),
        ]:
            if tree is not None:
                out.append({"kind": "rfc-example", "text": text.decode("utf-8"), "tree": tree, "decorated": False})
        deep = [7, b"a"]
        for i in range(150):
            deep = [2, deep] if i % 2 else [0, [deep]]
        out.append({"kind": "deep", "text": rfc4515.sentence(rng, deep).decode(), "tree": deep, "decorated": False})
        return out

    def generate(self, rng, n, tier):
        out = []
        for _ in range(n):
            tree = rfc4515.g_tree(rng, rng.choice([0, 1, 2, 3, 4, 6]))
            decorated = rng.random() < 0.4
            text = rfc4515.sentence(rng, tree, spaces=0.4 if decorated else 0.0)
            s = text.decode("utf-8", errors="surrogateescape")
            if decorated:
                s = rng.choice(WS + [""]) + s + rng.choice(WS + [""])
            out.append({"kind": "sentence", "text": s, "tree": tree, "decorated": decorated})
        return out

    def model_requests(self, c):
        return [[201, cps(c["text"])]]

    def impl_run(self, c):
        return [parse_impl(c["text"])]

    def oracle(self, c, ans):
        if ans and ans[0] == "!timeout":
            return "timeout"
        a = ans[0]
        if a[0] != 0:
            return f"an RFC 4515 sentence was rejected: {c['text']!r} -> {a}"
        if a[1] != canon(c["tree"]):
            return f"{c['text']!r} was parsed to a different tree than the grammar denotes"
        if not c["decorated"]:
            try:
                ref = rfc4515.parse(c["text"].encode("utf-8", errors="surrogateescape"))
            except rfc4515.NotASentence as e:
                return f"harness error: generated text is not a sentence for the reference parser: {e}"
            if canon(ref) != canon(c["tree"]):
                return "harness error: reference parser disagrees with the generator"
        # the bytes then encoded for a search request are the RFC 4511 encoding of that tree
        import sansldap

        cl = sansldap.LDAPClient()
        cl.search_request(base_object="", filter=sansldap.LDAPFilter.from_string(c["text"]))
        got = cl.data_to_send()
        want = rfc4511.encode([1, [3, b"", 2, 0, 0, 0, False, c["tree"], []], []])
        if got != want:
            return "SearchRequest bytes differ from the RFC 4511 encoding of the denoted tree"
        return None

    def classify(self, c):
        return c["kind"] + ("-decorated" if c["decorated"] else "")

    def nontrivial(self, c):
        return c["decorated"] or "\\" in c["text"] or msgs.filter_depth(c["tree"]) > 1


PROP = C14()
