"""C15 -- the filter parser is total and only accepts what it can faithfully represent."""
from __future__ import annotations

import random

from lib import msgs
from lib.framework import Prop, canon
from oracle import rfc4515
from props.filter_common import attrs_of, cps, parse_impl

STRUCT = list("()&|!=*\\:~<>; \n\t\r\x00\x0b\x1c") + ["\u3000", "é", "\udcff", "\ud800", "\U0001f600", "dn", "(", ")",
                                                              "\\  ", "\\ 4", "\\4 ", "\\\t1", "\\+1", "\\-1", "\\0x", "\\1_", "\\٣٣", "\\ａ1", "\\4\n"]


# characters that Unicode-aware matching (re.IGNORECASE, \d, \w, str.isalpha / isdigit) confuses with ASCII
CONFUSE = {"s": "\u017f", "S": "\u017f", "k": "\u212a", "K": "\u212a", "i": "\u0131", "I": "\u0130"}
CONF_DIGITS = ["\u0663", "\uff11", "\u00b2", "\u0967"]
CONF_LETTERS = ["\uff41", "\u00aa", "\u0430", "\u00e9", "\u017f", "\u212a", "\u0131", "\u0130"]


def confuse(rng, s):
    idx = [i for i, ch in enumerate(s) if ch.isascii() and ch.isalnum()]
    if not idx:
        return s
    i = rng.choice(idx)
    ch = s[i]
    if ch.isdigit():
        new = rng.choice(CONF_DIGITS)
    elif ch in CONFUSE and rng.random() < 0.7:
        new = CONFUSE[ch]
    else:
        new = rng.choice(CONF_LETTERS)
    return s[:i] + new + s[i + 1:]


class C15(Prop):
    id = "C15"
    prop_file = "Props/C15"
    level = "proof"
    binary_cases = True
    quick_n = 4000
    thorough_n = 100000
    case_timeout = 20.0
    rule = (
        "seeded strings: every kind of single-character edit (insert / delete / replace with structural characters, "
        "control characters, newlines, non-ASCII, lone surrogates) of RFC 4515 sentences incl. non-ASCII ones, random "
        "replacement of one ASCII letter/digit by a Unicode look-alike or case-fold partner (U+017F, U+212A, U+0130, U+0131, non-ASCII digits), text over a structural alphabet, unbalanced and very deep nesting (to 3000 levels), trailing garbage after a "
        "complete filter; checked: only FilterSyntaxError escapes, offset/length inside the (UTF-8 encoded, stripped) "
        "input, accepted filters have RFC 4512-valid attribute descriptions / matching rules and their own text form "
        "parses back to the same filter; compared with the extracted model; every from_string is made twice with the first result modified in place in between; non-trivial = not a plain sentence"
    )
    assumptions = [
        "offset/length are UTF-8 octet positions in the stripped input (what the parser indexes); for a string with an unencodable surrogate they are character positions",
    ]

    def corpus(self):
        texts = [
            "(objectClass\n=foo)", "(&(a=b)(c=d)", "(!" * 1000, "(!" * 3000 + "a=b" + ")" * 3000, "(\udcff=a)", "(a=\ud800)",
            "(cn=éé))", "(cn=éé)(", "(0=x)", "(attr:rule;option1:=value)", "", "   ", "(", ")", "()", "(&)", "(a=b))", "((a=b))",
            "(a=\\)", "(a=\\4)", "(a=b\\4g)", "(a:dn:=", "(:=x)", "(a::=x)", "(a:dn:dn:dn:=x)", "(a=**)", "(=x)", "a=b", "(a=b)\x1c",
            "(cn=\\  *smith)", "(cn=\\  *)", "(cn=a*\\  *b)", "(cn=\\ 4)", "(cn=\\+4)", "(cn=\\4_)", "(cn=\\٤١)", "(:dn:=x)", ":dn:=x", "(&(:dn:=x))", "(|(a=b)(!(:dn:=x)))", "(:dn:=)", "(:dn:1.2:=x)", "(a;=b)", "(a;x-=b)", "(1.=b)", "(1..2=b)", "(01.2=b)", "(a b=c)", "(a=b\n)",
        ]
        return [{"kind": "corpus", "text": t} for t in texts]

    def generate(self, rng, n, tier):
        out = []
        for _ in range(n):
            r = rng.random()
            if r < 0.6:
                tree = rfc4515.g_tree(rng, rng.choice([0, 1, 2, 3]))
                s = rfc4515.sentence(rng, tree, spaces=rng.choice([0, 0, 0.4])).decode("utf-8", errors="surrogateescape")
                if rng.random() < 0.25:
                    out.append({"kind": "confusable", "text": confuse(rng, s)})
                    continue
                for _ in range(rng.choice([1, 1, 1, 2, 3])):
                    i = rng.randrange(len(s) + 1)
                    op = rng.random()
                    ch = rng.choice(STRUCT)
                    if op < 0.4:
                        s = s[:i] + ch + s[i:]
                    elif op < 0.7 and i < len(s):
                        s = s[:i] + s[i + 1 :]
                    elif i < len(s):
                        s = s[:i] + ch + s[i + 1 :]
                out.append({"kind": "edit", "text": s})
            elif r < 0.85:
                k = rng.randint(0, 25)
                out.append({"kind": "random", "text": "".join(rng.choice(STRUCT + list("abc019")) for _ in range(k))})
            elif r < 0.88:
                d = rng.choice([1, 5, 5, 50, 50, 150, 150, 150, 1500])
                inner = rng.choice(["a=b", "", "(a=b)", "a"])
                closers = rng.choice([d, d - 1, d + 1, 0])
                out.append({"kind": "nesting", "text": rng.choice(["(!", "(&", "(|(x=y)"]) * d + inner + ")" * max(closers, 0)})
            else:
                tree = rfc4515.g_tree(rng, 1)
                s = rfc4515.sentence(rng, tree).decode("utf-8", errors="surrogateescape")
                out.append({"kind": "trailing", "text": s + rng.choice([")", "(", "&", "x", " y", "é)", "(a=b)"])})
        return out

    def model_requests(self, c):
        return [[201, cps(c["text"])]]

    def impl_run(self, c):
        return [parse_impl(c["text"])]

    def finding_key(self, c, what):
        if "single-arc numeric OID" in what:
            return "attr-single-arc-numericoid"
        if "matching rule with options" in what:
            return "rule-with-options"
        return None

    def oracle(self, c, ans):
        if ans and ans[0] == "!timeout":
            return "timeout"
        a = ans[0]
        text = c["text"]
        if a[0] == 2:
            return f"from_string({text[:60]!r}) raised a foreign exception (code {a[1]})"
        stripped = text.strip()
        try:
            bound = len(stripped.encode("utf-8", errors="surrogateescape"))
        except UnicodeEncodeError:
            bound = len(stripped)
        if a[0] == 1:
            off, ln = a[1], a[2]
            if off < 0 or ln < 0 or off + ln > bound:
                return f"from_string({text[:60]!r}): FilterSyntaxError offset={off} length={ln} not inside the {bound}-unit input"
            return None
        f = a[1]
        known = None
        from lib.framework import uncanon

        fl = uncanon(f)
        attrs, rules = attrs_of(fl)
        for at in attrs:
            if not rfc4515.is_attr_description(at, min_arcs=2):
                if rfc4515.is_attr_description(at, min_arcs=1):
                    known = known or f"accepted attribute {at!r} is a single-arc numeric OID (RFC 4512 numericoid needs two arcs)"
                else:
                    return f"from_string({text[:60]!r}) accepted the invalid attribute description {at!r}"
        for ru in rules:
            if not rfc4515.is_oid(ru, min_arcs=2):
                if rfc4515.is_attr_description(ru, min_arcs=1):
                    known = known or f"accepted matching rule with options / single arc {ru!r} (RFC 4512 oid has no options)"
                    if b";" in ru:
                        known = f"accepted matching rule with options {ru!r} (RFC 4512 oid has no options)"
                    else:
                        known = f"accepted matching rule {ru!r} which is a single-arc numeric OID (RFC 4512 numericoid needs two arcs)"
                else:
                    return f"from_string({text[:60]!r}) accepted the invalid matching rule {ru!r}"
        # the result's own text form parses back to the same result
        try:
            again = parse_impl(str(msgs.mk_filter(fl)))
        except Exception as e:  # noqa: BLE001
            return f"printing the accepted filter failed: {type(e).__name__}"
        if again != [0, msgs.r_filter(msgs.mk_filter(fl))] and canon(again) != [0, f]:
            return f"from_string({text[:60]!r}) accepted a filter whose own text form does not parse back to it"
        return known

    def classify(self, c):
        return c["kind"]

    def nontrivial(self, c):
        return c["kind"] != "corpus"


PROP = C15()
