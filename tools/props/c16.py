"""C16 -- schema definitions survive conversion to text and back."""
from __future__ import annotations

import random

from lib import model
from lib.framework import Prop, canon, res_of
from oracle import rfc4512
from props.schema_common import CHAIN_CMD, KINDS, U, parse_impl, render_impl, to_list, to_obj

WF_CMD = {"object_class": 320, "attribute_type": 321, "dit_content_rule": 322}


class C16(Prop):
    id = "C16"
    prop_file = "Props/C16"
    level = "proof"
    extended_driver = True
    quick_n = 2000
    thorough_n = 50000
    case_timeout = 20.0
    rule = (
        "seeded object-class / attribute-type / DIT-content-rule descriptions with RFC 4512-valid fields: numeric OIDs, "
        "0-3 descriptor names, OID lists of 0-4, optional descriptions and 0-3 extensions with 0-3 values made of quotes, "
        "backslashes, the literal texts \\27 \\5c \\5C, '|', '$', parentheses, control and non-ASCII characters, all "
        "flags/kinds/usages, syntax lengths to 10^12; str() and from_string() are compared with the extracted model, the "
        "text is parsed by an independent RFC 4512 reference parser; half of the objects are built empty, rendered once and completed in place before str(); every from_string is made twice with the first result modified in between; non-trivial = has a description or an extension"
    )
    assumptions = ["strings contain no lone surrogates; descriptions and extension values are non-empty"]

    def corpus(self):
        out = []
        for d in ["a|b", "'", "\\", "\\27", "see section \\27 of the spec", "C:\\5C\\data", "''\\\\", "x'"]:
            v = {"oid": "1.2", "names": [], "description": d, "obsolete": False, "extensions": {"ORIGIN": [d], "E": []},
                 "super_types": [], "kind": "STRUCTURAL", "must": [], "may": []}
            out.append({"kind": "object_class", "v": v})
        return out

    def generate(self, rng, n, tier):
        out = []
        for _ in range(n):
            kind = rng.choice(KINDS)
            out.append({"kind": kind, "v": rfc4512.g_value(rng, kind)})
        return out

    def model_requests(self, c):
        return [[CHAIN_CMD[c["kind"]], to_list(c["kind"], c["v"])]]

    def impl_run(self, c):
        w = res_of(lambda: render_impl(c["kind"], c["v"]))
        if w[0] != 0:
            return [[w, []]]
        text = w[1]
        return [[[0, U(text)], parse_impl(c["kind"], text)]]

    def oracle(self, c, ans):
        if ans and ans[0] == "!timeout":
            return "timeout"
        w, r = ans[0]
        if w[0] != 0:
            return f"str() raised code {w[1]}"
        text = "".join(chr(x) for x in w[1])
        if r[0] != 0:
            return f"the definition's own text form does not parse (code {r[1]}): {text!r}"
        if canon(r[1]) != canon(to_list(c["kind"], c["v"])):
            return f"parsing the text form yields a different definition: {text!r}"
        try:
            ref = rfc4512.parse(c["kind"], text)
        except rfc4512.NotASentence as e:
            return f"text form is not an RFC 4512 sentence ({e}): {text!r}"
        if canon(to_list(c["kind"], ref)) != canon(to_list(c["kind"], c["v"])):
            return f"text form denotes a different definition under the RFC 4512 grammar: {text!r}"
        return None

    def extra_checks(self, tier, seed, ctx):
        """The round-trip theorems assume executable well-formedness conditions (Schema/WfDec.v); every description the
        RFC 4512 generator produces must satisfy them, otherwise the theorems say nothing about it."""
        if not ctx["build"].ok:
            return []
        if not ctx["build"].driverx_ok:
            return [({"kind": "build", "mode": "build"}, "the extended model driver (Extract/DriverSchema.v) failed to build")]
        cases = ctx["cases"]
        ans = model.run_batch([[WF_CMD[c["kind"]], to_list(c["kind"], c["v"])] for c in cases], extended=True)
        out = []
        self.covered = 0
        for c, a in zip(cases, ans):
            if a == 1 or a is True:
                self.covered += 1
            else:
                out.append((c, f"the hypotheses of the C16 round-trip theorem do not cover this valid description (wf = {a!r})"))
                if len(out) >= 5:
                    break
        return out

    def extra_evidence(self, ctx):
        return {"descriptions_meeting_theorem_hypotheses": getattr(self, "covered", 0)}

    def classify(self, c):
        return c["kind"]

    def nontrivial(self, c):
        return c["v"]["description"] is not None or bool(c["v"]["extensions"])


PROP = C16()
