"""C17 -- schema text is parsed as RFC 4512 defines it."""
from __future__ import annotations

import random

from lib.framework import Prop, canon
from oracle import rfc4512
from props.schema_common import KINDS, PARSE_CMD, U, parse_impl, to_list

JUNK = list(" ()'$\\{}-_X.") + ["NAME", "DESC", "X-", "  ", "\n", "\t", "é", "''", "\\27", "\\5c", "MUST", "'"]


class C17(Prop):
    id = "C17"
    prop_file = "Props/C17"
    level = "other"
    quick_n = 2500
    thorough_n = 60000
    case_timeout = 20.0
    rule = (
        "seeded sentences of the three RFC 4512 description grammars produced by an independent generator from random "
        "values: every SP is 1-5 spaces and every WSP 0-2 spaces, single or parenthesised name / OID / string lists "
        "(incl. empty lists), \\5c and \\5C, optional explicit kind/usage, repeated extensions, the quoted SYNTAX variant "
        "of Active Directory, lower-case x- extension prefix; expected fields = the value the sentence was generated "
        "from, cross-checked by an independent reference parser; plus the totality clause on mutated / random strings "
        "(only ValueError may escape); compared with the extracted model; non-trivial = any sentence"
    )

    def corpus(self):
        texts = [
            ("object_class", "( 1.2 X-FOO  'bar' )"),
            ("object_class", "( 1.2 X-FOO 'bar' X-B   (  'a'   'b' ) )"),
            ("object_class", "( 2.5.6.6 NAME 'person' SUP top STRUCTURAL MUST ( sn $ cn ) MAY ( userPassword $ telephoneNumber $ seeAlso $ description ) )"),
            ("attribute_type", "( 2.5.4.3 NAME ( 'cn' 'commonName' ) DESC 'RFC4519: common name(s)' SUP name )"),
            ("attribute_type", "( 1.2.840.113556.1.4.221 NAME 'sAMAccountName' SYNTAX '1.3.6.1.4.1.1466.115.121.1.15{256}' SINGLE-VALUE )"),
            ("dit_content_rule", "( 2.5.6.4 DESC 'content rule for organization' NOT ( x121Address $ telexNumber ) )"),
            ("object_class", "( 1.2 DESC 'share \\5c27th floor' )"),
            ("object_class", "( 1.2 X-a (   ) X-a 'again' )"),
        ]
        out = []
        for k, t in texts:
            try:
                v = rfc4512.parse(k, t)
            except rfc4512.NotASentence:
                v = None
            out.append({"kind": k, "text": t, "v": v, "mode": "sentence" if v is not None else "junk"})
        return out

    def generate(self, rng, n, tier):
        out = []
        for _ in range(n):
            kind = rng.choice(KINDS)
            v = rfc4512.g_value(rng, kind)
            r = rng.random()
            t = rfc4512.sentence(rng, kind, v, ad_syntax=(kind == "attribute_type" and rng.random() < 0.3), lower_x=False)
            if r < 0.7:
                out.append({"kind": kind, "text": t, "v": v, "mode": "sentence"})
            else:
                # totality clause: edits / random text
                s = t
                for _ in range(rng.choice([1, 1, 2, 4])):
                    i = rng.randrange(len(s) + 1)
                    op = rng.random()
                    if op < 0.4:
                        s = s[:i] + rng.choice(JUNK) + s[i:]
                    elif op < 0.7 and i < len(s):
                        s = s[:i] + s[i + 1 :]
                    elif i < len(s):
                        s = s[:i] + rng.choice(JUNK) + s[i + 1 :]
                if rng.random() < 0.15:
                    s = "".join(rng.choice(JUNK + list("1.2 ")) for _ in range(rng.randint(0, 30)))
                out.append({"kind": kind, "text": s, "v": None, "mode": "junk"})
        return out

    def model_requests(self, c):
        return [[PARSE_CMD[c["kind"]], U(c["text"])]]

    def impl_run(self, c):
        return [parse_impl(c["kind"], c["text"])]

    def oracle(self, c, ans):
        if ans and ans[0] == "!timeout":
            return "timeout"
        a = ans[0]
        if a[0] == 1 and a[1] != 1:
            return f"from_string raised a foreign exception (code {a[1]}) on {c['text']!r}"
        if c["mode"] != "sentence":
            return None
        if a[0] != 0:
            return f"an RFC 4512 sentence was rejected: {c['text']!r}"
        want = to_list(c["kind"], c["v"])
        if canon(a[1]) != canon(want):
            return f"fields differ from what the grammar denotes for {c['text']!r}"
        try:
            ref = rfc4512.parse(c["kind"], c["text"])
        except rfc4512.NotASentence as e:
            return f"harness error: generator produced a non-sentence for the reference parser: {e}: {c['text']!r}"
        if canon(to_list(c["kind"], ref)) != canon(want):
            return f"harness error: reference parser disagrees with the generator on {c['text']!r}"
        return None

    def classify(self, c):
        return c["kind"] + "-" + c["mode"]


PROP = C17()
