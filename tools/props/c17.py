"""C17 -- schema text is parsed as RFC 4512 defines it."""
from __future__ import annotations

import random

from lib import model
from lib.framework import Prop, canon
from oracle import cst as cstmod
from oracle import rfc4512
from props.schema_common import KINDS, PARSE_CMD, U, parse_impl, to_list

CST_CMD = {"object_class": 330, "attribute_type": 331, "dit_content_rule": 332}
JUNK = list(" ()'$\\{}-_X.") + ["NAME", "DESC", "X-", "  ", "\n", "\t", "é", "''", "\\27", "\\5c", "MUST", "'"]


def sibling(rng, t):
    inside, pos = False, []
    for i, ch in enumerate(t):
        if ch == "'":
            inside = not inside
        elif ch == " " and inside:
            pos.append(i)
    if not pos:
        return None
    i = rng.choice(pos)
    return t[:i] + " " * rng.choice([1, 2]) + t[i:]


class C17(Prop):
    id = "C17"
    prop_file = "Props/C17"
    level = "proof"
    extended_driver = True
    quick_n = 2500
    thorough_n = 60000
    case_timeout = 20.0
    rule = (
        "seeded sentences of the three RFC 4512 description grammars produced by an independent generator from random "
        "values: every SP is 1-5 spaces and every WSP 0-2 spaces, single or parenthesised name / OID / string lists "
        "(incl. empty lists), \\5c and \\5C, optional explicit kind/usage, repeated extensions, the quoted SYNTAX variant "
        "of Active Directory, lower-case x- extension prefix; expected fields = the value the sentence was generated "
        "from, cross-checked by an independent reference parser; plus the totality clause on mutated / random strings "
        "(only ValueError may escape); compared with the extracted model; a quarter of the sentences are followed by a sibling differing in one space run inside a quoted string; every from_string is made twice with the first result modified in between; non-trivial = any sentence"
    )

    def corpus(self):
        texts = [
            ("object_class", "( 1.2 X-FOO  'bar' )"),
            ("object_class", "( 1.2 X-FOO 'bar' X-B   (  'a'   'b' ) )"),
            ("object_class", "( 2.5.6.6 NAME 'person' SUP top STRUCTURAL MUST ( sn $ cn ) MAY ( userPassword $ telephoneNumber $ seeAlso $ description ) )"),
            ("attribute_type", "( 2.5.4.3 NAME ( 'cn' 'commonName' ) DESC 'RFC4519: common name(s)' SUP name )"),
            ("attribute_type", "( 1.2.840.113556.1.4.221 NAME 'sAMAccountName' SYNTAX '1.3.6.1.4.1.1466.115.121.1.15{256}' SINGLE-VALUE )"),
            ("dit_content_rule", "( 2.5.6.4 DESC 'content rule for organization' NOT ( x121Address $ telexNumber ) )"),
            ("object_class", "( 1.2 DESC 'share \\5c27th floor' )"),
            ("object_class", "( 1.2 X-a (   ) X-a 'again' )"),
            # quoted SYNTAX bodies (the form Active Directory writes) that end in '}' without being a noidlen
            ("attribute_type", "( 1.0 SYNTAX 'OctetString{64}' )"),
            ("attribute_type", "( 1.2.840.113556.1.4.149 NAME 'attributeSecurityGUID' SYNTAX '1.3.6.1.4.1.1466.115.121.1.40{}' SINGLE-VALUE )"),
            ("attribute_type", "( 1.0 SYNTAX '1{5}' )"),
            ("attribute_type", "( 1.0 SYNTAX '1.2.3{64}' )"),
            ("attribute_type", "( 1.0 SYNTAX '1.2.3{x}' )"),
            ("attribute_type", "( 1.0 SYNTAX '{1}' )"),
            ("attribute_type", "( 1.0 SYNTAX 'a}' )"),
        ]
        out = []
        for k, t in texts:
            try:
                v = rfc4512.parse(k, t)
            except rfc4512.NotASentence:
                v = None
            out.append({"kind": k, "text": t, "v": v, "mode": "sentence" if v is not None else "junk"})
        return out

    def generate(self, rng, n, tier):
        out = []
        for _ in range(n):
            kind = rng.choice(KINDS)
            v = rfc4512.g_value(rng, kind)
            r = rng.random()
            t = rfc4512.sentence(rng, kind, v, ad_syntax=(kind == "attribute_type" and rng.random() < 0.3), lower_x=False)
            if r < 0.7:
                out.append({"kind": kind, "text": t, "v": v, "mode": "sentence"})
                if rng.random() < 0.25:
                    # a sibling sentence in the same process: equal up to the length of one space run INSIDE a quoted
                    # string (where spaces are data) - anything keyed on a normalised form of the text confuses the two
                    t2 = sibling(rng, t)
                    if t2 is not None:
                        try:
                            out.append({"kind": kind, "text": t2, "v": rfc4512.parse(kind, t2), "mode": "sentence"})
                        except rfc4512.NotASentence:
                            pass
            else:
                # totality clause: edits / random text
                s = t
                for _ in range(rng.choice([1, 1, 2, 4])):
                    i = rng.randrange(len(s) + 1)
                    op = rng.random()
                    if op < 0.4:
                        s = s[:i] + rng.choice(JUNK) + s[i:]
                    elif op < 0.7 and i < len(s):
                        s = s[:i] + s[i + 1 :]
                    elif i < len(s):
                        s = s[:i] + rng.choice(JUNK) + s[i + 1 :]
                if rng.random() < 0.15:
                    s = "".join(rng.choice(JUNK + list("1.2 ")) for _ in range(rng.randint(0, 30)))
                out.append({"kind": kind, "text": s, "v": None, "mode": "junk"})
        return out

    def model_requests(self, c):
        return [[PARSE_CMD[c["kind"]], U(c["text"])]]

    def impl_run(self, c):
        return [parse_impl(c["kind"], c["text"])]

    def oracle(self, c, ans):
        if ans and ans[0] == "!timeout":
            return "timeout"
        a = ans[0]
        if a[0] == 1 and a[1] != 1:
            return f"from_string raised a foreign exception (code {a[1]}) on {c['text']!r}"
        if c["mode"] != "sentence":
            return None
        if a[0] != 0:
            return f"an RFC 4512 sentence was rejected: {c['text']!r}"
        want = to_list(c["kind"], c["v"])
        if canon(a[1]) != canon(want):
            return f"fields differ from what the grammar denotes for {c['text']!r}"
        try:
            ref = rfc4512.parse(c["kind"], c["text"])
        except rfc4512.NotASentence as e:
            return f"harness error: generator produced a non-sentence for the reference parser: {e}: {c['text']!r}"
        if canon(to_list(c["kind"], ref)) != canon(want):
            return f"harness error: reference parser disagrees with the generator on {c['text']!r}"
        return None

    def extra_checks(self, tier, seed, ctx):
        """The grammar theorems quantify over concrete syntax trees (a value plus every spacing / list-form / escape
        choice).  Random trees are rendered twice - by the Coq definitions (extracted) and by oracle/cst.py - and the
        sentence is parsed by the implementation and by the independent reference parser: the Coq grammar must produce the
        same text, accept the tree (executable hypotheses of the theorem), and denote the value the tree was made from."""
        if not ctx["build"].ok:
            return []
        if not ctx["build"].driverx_ok:
            return [({"kind": "build", "mode": "build"}, "the extended model driver (Extract/DriverSchema.v) failed to build")]
        rng = random.Random(seed ^ 0xC57)
        n = 600 if tier == "quick" else 12000
        cases = []
        for _ in range(n):
            kind = rng.choice(KINDS)
            v = rfc4512.g_value(rng, kind)
            dup = [rfc4512.g_text(rng) for _ in range(rng.choice([0, 1, 2]))] if rng.random() < 0.15 else None
            tree = cstmod.make(rng, kind, v, ad_syntax=(kind == "attribute_type" and rng.random() < 0.3), dup_values=dup)
            cases.append({"kind": kind, "v": v, "tree": tree, "text": cstmod.render(kind, tree), "mode": "tree"})
        ans = model.run_batch([[CST_CMD[c["kind"]], c["tree"]] for c in cases], extended=True)
        out = []
        self.trees = 0
        for c, a in zip(cases, ans):
            what = self.judge_tree(c, a)
            if what:
                out.append((c, what))
                if len(out) >= 5:
                    break
            else:
                self.trees += 1
        out.extend(self.engine_agreement(ctx, cases, rng))
        return out

    def engine_agreement(self, ctx, trees, rng):
        """CPython's sre against the model's backtracking matcher on the description patterns themselves: the end of the
        match and the span of every capture group (about a hundred per pattern) must be identical on sentences,
        mutated sentences and the NOIDLEN splitter - this is the assumption the C16/C17 theorems rest on."""
        from sansldap import schema

        pats = {"object_class": (0, schema.OBJECT_CLASS_DESCRIPTION), "attribute_type": (1, schema.ATTRIBUTE_TYPE_DESCRIPTION),
                "dit_content_rule": (2, schema.DIT_CONTENT_RULE_DESCRIPTION)}
        jobs = []
        for c in list(ctx["cases"])[:1500] + trees[:400]:
            i, p = pats[c["kind"]]
            jobs.append((i, p, c["text"]))
        for _ in range(300):
            t = "".join(rng.choice(["1", "2", "0", "10", ".", ".", "{", "}", "'", "a", ""]) for _ in range(rng.randint(1, 10)))
            jobs.append((3, schema.NOIDLEN_MATCH, t))
        ans = model.run_batch([[340, i, U(t)] for i, _, t in jobs], extended=True)
        out = []
        self.engine_cases = 0
        for (i, p, t), a in zip(jobs, ans):
            m = p.match(t)
            if m is None:
                want = [1]
            else:
                want = [0, m.end(), [([m.start(g), m.end(g)] if m.span(g) != (-1, -1) else []) for g in range(1, p.groups + 1)]]
            if canon(a) != canon(want):
                out.append(({"kind": "engine", "pattern": i, "text": t, "mode": "engine"},
                            f"CPython's sre and the model's matcher disagree on pattern {i} (end or capture spans) for {t!r}"))
                if len(out) >= 3:
                    break
            else:
                self.engine_cases += 1
        return out

    def judge_tree(self, c, a):
        if not isinstance(a, list) or len(a) != 4:
            return f"the model driver rejected a concrete syntax tree ({a!r})"
        text, wf, den, parsed = a
        want = canon(to_list(c["kind"], c["v"]))
        if "".join(chr(x) for x in text) != c["text"]:
            return "the Coq grammar and the independent renderer write different sentences for the same tree"
        if wf != 1:
            return "the hypotheses of the C17 grammar theorem do not cover this sentence"
        if canon(den) != want:
            return "the Coq grammar denotes a different value than the tree was made from"
        if canon(parsed) != canon([0, den]):
            return "the model parser does not return the denotation on a sentence (theorem instance fails by computation)"
        try:
            ref = rfc4512.parse(c["kind"], c["text"])
        except rfc4512.NotASentence as e:
            return f"the independent reference parser rejects a sentence of the Coq grammar ({e})"
        if canon(to_list(c["kind"], ref)) != want:
            return "the independent reference parser reads a different value from a sentence of the Coq grammar"
        got = parse_impl(c["kind"], c["text"])
        if canon(got) != canon([0, to_list(c["kind"], c["v"])]):
            return f"from_string does not return what the grammar denotes for {c['text']!r}"
        return None

    def extra_evidence(self, ctx):
        return {"syntax_trees_checked_against_theorem_hypotheses_and_reference_parser": getattr(self, "trees", 0),
                "engine_agreement_cases_sre_vs_model_matcher_all_group_spans": getattr(self, "engine_cases", 0)}

    def classify(self, c):
        return c["kind"] + "-" + c["mode"]


PROP = C17()
