"""C18 -- parsing cost grows polynomially with input size.

What is decided here (see DESIGN.md, C18): no theorem.  A cost semantics for the backtracking matcher on all
inputs (failing ones included) and an ambiguity certificate per pattern were not built, so this check is a timing
experiment on the implementation: adversarial input families are run at doubling sizes and both the absolute CPU
time and the growth per doubling are bounded.  The patterns are still regenerated into coq/Gen/Generated.v on
every run (they are what C15-C17 reason about), and the loops of the hand-written scanners / receive are shown to
terminate within fuel linear in the input by the totality theorems of C05, C15 and C17 - that bounds iterations,
not time.
"""
from __future__ import annotations

import random
import time

from lib import msgs, sessions
from lib.framework import Prop, Timeout, with_timeout


def cpu(fn, *a):
    t = time.process_time()
    try:
        fn(*a)
    except Timeout:
        raise
    except Exception:  # noqa: BLE001 - only the cost matters here
        pass
    return time.process_time() - t


def best(fn, *a, reps=2):
    return min(cpu(fn, *a) for _ in range(reps))


def schema_parsers():
    from sansldap import schema

    return {
        "oc": schema.ObjectClassDescription.from_string,
        "at": schema.AttributeTypeDescription.from_string,
        "dcr": schema.DITContentRuleDescription.from_string,
    }


def filter_parser():
    import sansldap

    return sansldap.LDAPFilter.from_string


def recv_server(data):
    import sansldap

    sansldap.LDAPServer().receive(data)


def recv_bytewise(data):
    import sansldap

    s = sansldap.LDAPServer()
    for i in range(len(data)):
        s.receive(data[i : i + 1])


# name -> (callable key, builder(n) -> input)
def families():
    F = {}
    for k in ("oc", "at", "dcr"):
        F[f"{k}:unterminated-desc"] = (k, lambda n: "( 1.2 DESC '" + "a" * n)
        F[f"{k}:desc-then-junk"] = (k, lambda n: "( 1.2 DESC '" + "a" * n + "' BOGUS )")
        F[f"{k}:desc-escapes"] = (k, lambda n: "( 1.2 DESC '" + "\\27\\5c" * (n // 6) + "x")
        F[f"{k}:space-run"] = (k, lambda n: "( 1.2" + " " * n + "!")
        F[f"{k}:ext-empty-lists"] = (k, lambda n: "( 1.2" + " X-a (          )" * (n // 16) + " !")
        F[f"{k}:ext-many"] = (k, lambda n: "( 1.2" + " X-a 'b'" * (n // 8) + " !")
        F[f"{k}:ext-list-long"] = (k, lambda n: "( 1.2 X-a (" + " 'v'" * (n // 4) + " !")
        F[f"{k}:name-list"] = (k, lambda n: "( 1.2 NAME (" + " 'ab'" * (n // 5) + " !")
        F[f"{k}:name-spaces"] = (k, lambda n: "( 1.2 NAME (" + " " * n + "!")
        F[f"{k}:oid-long"] = (k, lambda n: "( " + "1." * (n // 2) + "x")
        F[f"{k}:valid-long"] = (k, lambda n: "( 1.2 DESC '" + "a" * n + "' X-a ( " + "'b' " * (n // 4) + ") )")
    F["oc:must-list"] = ("oc", lambda n: "( 1.2 MUST (" + " a $" * (n // 4) + " !")
    F["at:syntax-quoted"] = ("at", lambda n: "( 1.2 SYNTAX '" + "1." * (n // 2) + "{")
    F["filter:oid-components"] = ("filter", lambda n: "(" + ".".join(["1"] * (n // 2)) + "!=x)")
    F["filter:oid-components-zero"] = ("filter", lambda n: "(" + ".".join(["0"] * (n // 2)) + "!=x)")
    F["filter:options"] = ("filter", lambda n: "(a" + ";x" * (n // 2) + "!=x)")
    F["filter:nesting-malformed"] = ("filter", lambda n: "(!" * (n // 2) + "a=b" + ")" * (n // 2))
    F["filter:nesting-not"] = ("filter", lambda n: "(!" * (n // 3) + "(a=b)" + ")" * (n // 3))
    F["filter:nesting-and-or"] = ("filter", lambda n: "(&(|" * (n // 6) + "(a=b)" + "))" * (n // 6))
    F["filter:nesting-siblings"] = ("filter", lambda n: "(&(x=y)" * (n // 8) + "(a=b)" + ")" * (n // 8))
    # nests in which only a fraction of the closing parentheses is present and the innermost value is long: error
    # recovery that retries a sub-filter with a different range compounds per level
    for name, num, den in (("quarter", 1, 4), ("half", 1, 2), ("three-quarters", 3, 4), ("all-but-one", None, None)):
        for op in ("&", "!"):
            def fam(n, num=num, den=den, op=op):
                d = max(n // 4, 1)
                closers = d - 1 if num is None else d * num // den
                return ("(" + op) * d + "(a=" + "1" * d + ")" * closers
            F[f"filter:nesting-{'and' if op == '&' else 'not'}-{name}-closed"] = ("filter", fam)
    # the same nests with the spaces the parser tolerates after an operator / between sub-filters
    F["filter:nesting-and-padded"] = ("filter", lambda n: "(& " * (n // 4) + "(cn=a)" + ")" * (n // 4))
    F["filter:nesting-not-padded"] = ("filter", lambda n: "(! " * (n // 4) + "(cn=a)" + ")" * (n // 4))
    F["filter:nesting-padded-both"] = ("filter", lambda n: "(& " * (n // 5) + "(cn=a)" + " )" * (n // 5))
    F["filter:nesting-siblings-padded"] = ("filter", lambda n: "(| (x=y) " * (n // 10) + "(cn=a)" + ")" * (n // 10))
    for bad in ("(a)", "(a=b", "(=x)", "a=b"):
        for op in ("&", "|"):
            def fam2(n, bad=bad, op=op):
                d = max(n // 9, 1)
                return ("(" + op) * d + bad + "(x=y))" * d
            F[f"filter:bad-leaf-with-siblings-{'and' if op == '&' else 'or'}-{bad}"] = ("filter", fam2)
    F["filter:nesting-unclosed"] = ("filter", lambda n: "(&" * (n // 2))
    F["filter:wide-and"] = ("filter", lambda n: "(&" + "(a=b)" * (n // 5) + ")")
    F["filter:escapes"] = ("filter", lambda n: "(a=" + "\\41" * (n // 3) + ")")
    F["filter:bad-escape-late"] = ("filter", lambda n: "(a=" + "\\41" * (n // 3) + "\\4)")
    F["filter:stars"] = ("filter", lambda n: "(a=" + "x*" * (n // 2) + ")")
    F["filter:spaces"] = ("filter", lambda n: "(&" + " " * n + "(a=b))")
    F["filter:ext-header"] = ("filter", lambda n: "(a" + ":b" * (n // 2) + ":=x)")
    m = msgs.pack([1, [7, b"1.2.3", []], []])
    F["receive:many-messages"] = ("recv", lambda n: m * max(1, n // len(m)))
    F["receive:bytewise"] = ("recv1", lambda n: msgs.pack([1, [7, b"1.2.3", [b"v" * n]], []]))
    F["receive:deep-filter"] = ("recv", lambda n: msgs.pack([1, [3, b"", 2, 0, 0, 0, False, msgs.deep_filter(min(n // 4, 150)), []], []]))
    F["receive:huge-length-header"] = ("recv", lambda n: b"\x30\x84\x7f\xff\xff\xff" + b"\x00" * n)
    F["receive:long-high-tag"] = ("recv", lambda n: b"\x1f" + b"\xff" * n)
    return F


SIZES = [100, 200, 400, 800, 1600]


class C18(Prop):
    id = "C18"
    prop_file = "Props/C18"
    level = "other"
    quick_n = 0
    thorough_n = 0
    case_timeout = 60.0
    rule = (
        "timing sweep on the implementation: every adversarial family (unterminated / escaped quoted strings, long "
        "space runs, repeated empty and long extension lists, name and OID lists failing late, dotted OID components, "
        "attribute options, deep valid nesting of !, & and | (alone and with siblings), malformed / unclosed / wide nesting, late bad escapes, many '*', many messages per chunk, "
        "byte-wise delivery, absurd length and tag headers) is run at sizes 100..1600 (thorough: ..6400); CPU time per "
        "call must stay below 1 s and the growth from n to 2n below a factor 12 (cubic = 8); non-trivial = all"
    )
    assumptions = [
        "no theorem bounds the cost: the families are chosen by hand from the patterns and loops of the parsers (unterminated quoted strings, nested repetitions, long space runs, deep valid and malformed nesting, late failures); an input family outside them is not covered",
        "wall/CPU time depends on the machine: thresholds are deliberately loose (1 s absolute, x12 per doubling)",
    ]

    def corpus(self):
        return []

    def generate(self, rng, n, tier):
        sizes = SIZES + ([3200, 6400] if tier == "thorough" else [])
        return [{"kind": "family", "name": name, "sizes": sizes} for name in sorted(families())]

    def model_requests(self, c):
        return []

    def impl_run(self, c):
        fam = families()[c["name"]]
        P = dict(schema_parsers())
        P["filter"] = filter_parser()
        P["recv"] = recv_server
        P["recv1"] = recv_bytewise
        fn = P[fam[0]]
        times = []
        for n in c["sizes"]:
            if fam[0] == "recv1" and n > 1600:
                n = 1600
            inp = fam[1](n)
            try:
                t = with_timeout(20.0, best, fn, inp)
            except Timeout:
                t = 20.0
            times.append(round(t, 5))
            if t >= 5.0:
                break
        self._times = getattr(self, "_times", {})
        self._times[c["name"]] = times
        return [times_marker(times)]

    def oracle(self, c, ans):
        if ans and ans[0] == "!timeout":
            return f"family {c['name']}: timed out"
        times = (getattr(self, "_times", {}) or {}).get(c["name"])
        if times is None:
            return None
        sizes = c["sizes"][: len(times)]
        for n, t in zip(sizes, times):
            if t >= 1.0:
                return f"family {c['name']}: {t:.2f}s CPU for an input of size {n}"
        for (n1, t1), (n2, t2) in zip(zip(sizes, times), zip(sizes[1:], times[1:])):
            if t1 >= 0.02 and t2 / t1 > 12.0:
                return f"family {c['name']}: CPU time grows x{t2 / t1:.1f} from size {n1} to {n2} ({t1:.3f}s -> {t2:.3f}s)"
        return None

    def normalize_model(self, c, answers):
        return []

    def classify(self, c):
        return c["name"].split(":")[0]

    def extra_evidence(self, ctx):
        return {"cpu_seconds_by_family": getattr(self, "_times", {})}


def times_marker(times):
    # the correspondence is not about timing: both sides contribute nothing
    return None


# impl_run must return a list aligned with model_requests (empty): wrap
_orig_impl_run = C18.impl_run


def _impl_run(self, c):
    _orig_impl_run(self, c)
    return []


C18.impl_run = _impl_run

PROP = C18()
