"""C19 -- sessions are isolated; custom types take effect per session only."""
from __future__ import annotations

import copy
import dataclasses
import random
import struct
import typing as t

from lib import msgs, sessions
from lib.framework import Timeout, canon, exc_code
from lib.sessions import C_EXT, C_SEARCH, CLIENT, DRAIN, RECV, SERVER
from oracle import ber
from props.c02 import chunkings
from props.session_common import SessionProp

def U(x):
    return [ord(ch) for ch in x]


OID_X, OID_Y = b"1.2.3.4", b"1.2.3.5"
REG_CTL, REG_FILTER, REG_AUTH, SEND_CUSTOM = 20, 21, 22, 23


def custom_classes():
    """User-defined types of the shape the documentation shows."""
    import sansldap
    from sansldap.asn1 import ASN1Tag, TagClass

    def mk_ctl(name, oid):
        @dataclasses.dataclass(frozen=True)
        class Ctl(sansldap.LDAPControl):
            control_type: str = dataclasses.field(init=False, repr=False, default=oid)
            value: t.Optional[bytes] = dataclasses.field(init=False, repr=False, default=None)
            size: int = 0

            def get_value(self, options):
                return struct.pack(">I", self.size)

            @classmethod
            def unpack(cls, control_type, critical, value, options):
                return cls(critical=critical, size=struct.unpack(">I", (value or b"\x00\x00\x00\x00")[:4].rjust(4, b"\x00"))[0])

        Ctl.__name__ = Ctl.__qualname__ = name
        return Ctl

    def mk_filter(name, fid):
        @dataclasses.dataclass(frozen=True)
        class CustomFilter(sansldap.LDAPFilter):
            filter_id: int = dataclasses.field(init=False, repr=False, default=fid)
            value: str = ""

            def pack(self, writer, options):
                writer.write_octet_string(self.value.encode("utf-8"), tag=ASN1Tag(TagClass.CONTEXT_SPECIFIC, fid, False))

            @classmethod
            def unpack(cls, reader, options):
                return cls(value=reader.read_octet_string(ASN1Tag(TagClass.CONTEXT_SPECIFIC, fid, False)).decode("utf-8"))

        CustomFilter.__name__ = CustomFilter.__qualname__ = name
        return CustomFilter

    def mk_auth(name, aid):
        @dataclasses.dataclass(frozen=True)
        class CustomAuth(sansldap.AuthenticationCredential):
            auth_id: int = dataclasses.field(init=False, repr=False, default=aid)
            secret: str = ""

            def pack(self, writer, options):
                writer.write_octet_string(self.secret.encode("utf-8"), tag=ASN1Tag(TagClass.CONTEXT_SPECIFIC, aid, False))

            @classmethod
            def unpack(cls, reader, options):
                return cls(secret=reader.read_octet_string(tag=ASN1Tag(TagClass.CONTEXT_SPECIFIC, aid, False)).decode("utf-8"))

        CustomAuth.__name__ = CustomAuth.__qualname__ = name
        return CustomAuth

    return {
        "X": mk_ctl("CtlX", OID_X.decode()), "Y": mk_ctl("CtlY", OID_Y.decode()),
        # a DIFFERENT class for an OID / choice id that may already be taken, and classes colliding with built-ins
        "X2": mk_ctl("CtlX2", OID_X.decode()), "P": mk_ctl("CtlP", msgs.OID_PAGED.decode()),
        "filter": mk_filter("CustomFilter", 1024), "filter2": mk_filter("CustomFilter2", 1024), "filter7": mk_filter("CustomFilter7", 7),
        "auth": mk_auth("CustomAuth", 1024), "auth2": mk_auth("CustomAuth2", 1024), "auth0": mk_auth("CustomAuth0", 0),
    }


TYPE_ID = {"X": ("c", OID_X), "X2": ("c", OID_X), "Y": ("c", OID_Y), "P": ("c", msgs.OID_PAGED),
           "filter": ("f", 1024), "filter2": ("f", 1024), "filter7": ("f", 7),
           "auth": ("a", 1024), "auth2": ("a", 1024), "auth0": ("a", 0)}
BUILTIN_IDS = {("c", msgs.OID_PAGED), ("c", msgs.OID_SHOW_DELETED), ("c", msgs.OID_SHOW_DEACT), ("a", 0), ("a", 3)} | {("f", i) for i in range(10)}
CTL_NAMES = {"CtlX": "X", "CtlX2": "X2", "CtlY": "Y", "CtlP": "P"}


def reg_name(call):
    if call[0] == REG_CTL:
        return call[1]
    if call[0] == REG_FILTER:
        return call[1] if len(call) > 1 else "filter"
    return call[1] if len(call) > 1 else "auth"


CLS = None


def classes():
    global CLS
    if CLS is None:
        CLS = custom_classes()
    return CLS


def render_msg(m):
    """Like msgs.r_msg but tolerant of the custom classes (rendered by class name + fields)."""
    import sansldap

    def ctl(c):
        n = type(c).__name__
        if n in CTL_NAMES:
            return ["custom", n, bool(c.critical), int(c.size), msgs.opt(c.value)]
        return msgs.r_control(c)

    try:
        plain = copy.copy(m)
        object.__setattr__(plain, "controls", [])
        base = msgs.r_msg(plain)
    except TypeError:
        # custom filter / credential inside
        if isinstance(m, sansldap.SearchRequest):
            base = [m.message_id, ["search-custom-filter", type(m.filter).__name__, getattr(m.filter, "value", None)], []]
        elif isinstance(m, sansldap.BindRequest):
            base = [m.message_id, ["bind-custom-auth", type(m.authentication).__name__, getattr(m.authentication, "secret", None)], []]
        else:
            raise
    base[2] = [ctl(c) for c in m.controls]
    return base


def do_ext_call(s, call):
    import sansldap

    C = classes()
    k = call[0]
    if k == REG_CTL:
        s.register_control(C[call[1]])
        return [1]
    if k == REG_FILTER:
        s.register_filter(C[reg_name(call)])
        return [1]
    if k == REG_AUTH:
        s.register_auth_credential(C[reg_name(call)])
        return [1]
    if k == SEND_CUSTOM:
        what = call[1]
        if what == "ctl":
            return [0, s.extended_request("1.2.3", controls=[C[call[2]](critical=True, size=call[3])])]
        if what == "filter":
            return [0, s.search_request(filter=C["filter"](value="v"))]
        return [0, s.bind("cn=x", C["auth"](secret="s"))]
    if k == RECV:
        # one bytearray object per distinct chunk value and run: sessions that are fed "the same bytes" (a tee,
        # a mirror, a registered and an unregistered session compared on one input) get the identical object
        arg = SHARED.setdefault(bytes(call[1]), bytearray(call[1]))
        ms = s.receive(arg)
        return [3, [render_msg(m) for m in ms]]
    return sessions.do_call(s, call)


SHARED: dict = {}


def outcome(s, call):
    import sansldap

    try:
        return do_ext_call(s, call)
    except Timeout:
        raise
    except sansldap.ProtocolError as e:
        return [5, sessions.classify_response(getattr(e, "response", None))]
    except sansldap.LDAPError:
        return [4]
    except BaseException as e:  # noqa: BLE001
        if isinstance(e, (KeyboardInterrupt, SystemExit)):
            raise
        return [6, exc_code(e)]


def run_alone(role, calls):
    SHARED.clear()
    s = sessions.new_session(role)
    return [[outcome(s, c), sessions.probe(s)] for c in calls]


def run_alone_fresh(h):
    """The transcript of one history run alone in a fresh interpreter."""
    import json
    import pickle
    import subprocess
    import sys

    code = ("import sys, json, pickle; sys.path.insert(0, '/verif/tools'); sys.path.insert(0, '/repo/src');"
            "from props import c19; from lib.framework import canon; h = pickle.load(sys.stdin.buffer);"
            "print(json.dumps(canon(c19.run_alone(h['role'], h['calls']))))")
    p = subprocess.run([sys.executable, "-c", code], input=pickle.dumps(h), capture_output=True, timeout=600)
    if p.returncode != 0:
        raise RuntimeError("fresh-process baseline failed: " + p.stderr.decode()[-300:])
    return json.loads(p.stdout.decode().strip().splitlines()[-1])


def many_unknown_codes(role, base, n):
    """n request/response cycles whose result codes are n DISTINCT values the enum does not list, then code 118."""
    calls = []
    for i in range(1, n + 2):
        code = 118 if i == n + 1 else base + i
        if role == CLIENT:
            calls.append([C_EXT, b"1.2.3", [], []])
            calls.append([RECV, msgs.pack([i, [8, [code, b"", b"", []], [], []], []])])
        else:
            calls.append([RECV, msgs.pack([i, [7, b"1.2.3", []], []])])
            calls.append([sessions.S_EXTRESP, i, [], [], code, b"", b"", []])
            calls.append([DRAIN, []])
    return {"role": role, "calls": calls}


def run_interleaved(hists, order):
    SHARED.clear()
    ss = [sessions.new_session(h["role"]) for h in hists]
    idx = [0] * len(hists)
    out = [[] for _ in hists]
    for who in order:
        h = hists[who]
        if idx[who] >= len(h["calls"]):
            continue
        c = h["calls"][idx[who]]
        idx[who] += 1
        out[who].append([outcome(ss[who], c), sessions.probe(ss[who])])
    for who, h in enumerate(hists):
        while idx[who] < len(h["calls"]):
            c = h["calls"][idx[who]]
            idx[who] += 1
            out[who].append([outcome(ss[who], c), sessions.probe(ss[who])])
    return out


def custom_request_bytes(rng, mid):
    """Requests (for a server) carrying custom controls / filter / credential in generic encoding."""
    r = rng.random()
    ctl = lambda oid: ber.tlv(0, True, 16, ber.tlv(0, False, 4, oid) + ber.tlv(0, False, 1, b"\xff") + ber.tlv(0, False, 4, struct.pack(">I", rng.randint(0, 99))))  # noqa: E731
    idb = ber.tlv(0, False, 2, ber.enc_int(mid))
    if r < 0.6:
        oids = rng.choice([[OID_X], [OID_Y], [OID_X, OID_Y], [OID_Y, OID_X]])
        body = idb + ber.tlv(1, True, 23, ber.tlv(2, False, 0, b"1.3.6.1.4.1.1466.20037")) + ber.tlv(2, True, 0, b"".join(ctl(o) for o in oids))
    elif r < 0.8:
        sr = (ber.tlv(0, False, 4, b"") + bytes.fromhex("0a01020a0100020100020100010100") + ber.tlv(2, False, 1024, b"v") + ber.tlv(0, True, 16, b""))
        body = idb + ber.tlv(1, True, 3, sr)
    else:
        body = idb + ber.tlv(1, True, 0, ber.tlv(0, False, 2, b"\x03") + ber.tlv(0, False, 4, b"cn=x") + ber.tlv(2, False, 1024, b"s"))
    return ber.tlv(0, True, 16, body)


def gen_custom_history(rng):
    role = rng.randint(0, 1)
    calls = []
    for _ in range(rng.randint(0, 3)):
        r = rng.random()
        if r < 0.6:
            calls.append([REG_CTL, rng.choice(["X", "Y", "X", "Y", "X2", "P"])])
        elif r < 0.8:
            calls.append([REG_FILTER, rng.choice(["filter", "filter", "filter2", "filter7"])])
        else:
            calls.append([REG_AUTH, rng.choice(["auth", "auth", "auth2", "auth0"])])
    mid = 1
    for _ in range(rng.randint(1, 6)):
        r = rng.random()
        if role == SERVER:
            if r < 0.7:
                calls.append([RECV, custom_request_bytes(rng, mid)])
                mid += 1
            elif r < 0.85:
                calls.append(rng.choice([[REG_CTL, "X"], [REG_CTL, "Y"], [REG_CTL, "X2"], [REG_FILTER, "filter2"], [REG_AUTH, "auth2"]]))
            else:
                calls.append([DRAIN, []])
        else:
            if r < 0.5:
                calls.append([SEND_CUSTOM, "ctl", rng.choice(["X", "Y"]), rng.randint(0, 9)])
            elif r < 0.6:
                calls.append([SEND_CUSTOM, rng.choice(["filter", "auth"])])
            elif r < 0.75:
                calls.append(rng.choice([[REG_CTL, "X"], [REG_CTL, "Y"], [REG_CTL, "X2"], [REG_FILTER, "filter2"], [REG_AUTH, "auth2"]]))
            else:
                calls.append([DRAIN, []])
    return {"role": role, "calls": calls}


class C19(SessionProp):
    id = "C19"
    prop_file = "Props/C19"
    level = "proof"
    quick_n = 600
    thorough_n = 15000
    rule = (
        "seeded pairs of session histories (client/server in any combination): plain histories of the C08 generator and "
        "histories that register custom control (two different OIDs), filter and credential types (incl. duplicates of the same class, a different class for a taken id, and classes colliding with built-in ids) "
        "and then send / receive messages carrying those types; corpus pairs of 150-cycle histories with 300 distinct unknown result codes between them, compared with baselines run in fresh interpreters; 15% tees (two sessions of one role handed the identical bytearray objects holding the chunks of one stream); the two are run interleaved (random merge order) in "
        "one process and each alone on fresh sessions; transcripts (outcome, state, pending bytes after every call) "
        "must be identical; plain histories are also replayed on two independent instances of the extracted model; "
        "non-trivial = both histories have 2+ calls"
    )
    assumptions = [
        "hidden shared state is excluded only as far as the generated interleavings exercise it (the Gallina model has no shared state by construction)",
    ]

    def generate(self, rng, n, tier):
        out = []
        for _ in range(n):
            r0 = rng.random()
            if r0 < 0.15:
                # a tee: two sessions of one role are handed the same chunks of one well-formed stream
                role = rng.randint(0, 1)
                k = rng.randint(1, 4)
                pre = [[sessions.C_EXT, b"1.2.3", [], []] for _ in range(k)] if role == 0 else []
                ms = [[i, msgs.g_op(rng, 8 if role == 0 else rng.choice([3, 7]), depth=1), []] for i in range(1, k + 1)]
                for m in ms:
                    if m[1][0] == 8:
                        m[1][2] = []
                chunks = chunkings(rng, b"".join(msgs.pack(m) for m in ms))
                h = {"role": role, "calls": pre + [[RECV, ch] for ch in chunks]}
                hs = [h, copy.deepcopy(h)]
                plain = True
            elif r0 < 0.55:
                hs = [sessions.gen_history(rng), sessions.gen_history(rng)]
                for h in hs:
                    h.pop("meta", None)
                plain = True
            else:
                hs = [gen_custom_history(rng), gen_custom_history(rng)]
                plain = False
            total = sum(len(h["calls"]) for h in hs)
            order = [rng.randint(0, 1) for _ in range(total)]
            out.append({"hists": hs, "order": order, "plain": plain})
        return out

    def corpus(self):
        # two servers with the same NUMBER of registered controls but different sets
        a = {"role": 1, "calls": [[REG_CTL, "X"], [RECV, custom_request_bytes(random.Random(1), 1)]]}
        b = {"role": 1, "calls": [[REG_CTL, "Y"], [RECV, custom_request_bytes(random.Random(1), 1)]]}
        dup = {"role": 0, "calls": [[REG_CTL, "X"], [REG_CTL, "X"], [REG_FILTER], [REG_FILTER], [REG_AUTH], [REG_AUTH]]}
        other = {"role": 1, "calls": [[REG_CTL, "X"], [REG_CTL, "X2"], [REG_FILTER, "filter"], [REG_FILTER, "filter2"], [REG_FILTER, "filter7"],
                                      [REG_AUTH, "auth2"], [REG_AUTH, "auth"], [REG_AUTH, "auth0"], [REG_CTL, "P"],
                                      [RECV, custom_request_bytes(random.Random(3), 1)]]}
        fresh = []
        for ra, rb in ((0, 0), (0, 1), (1, 1)):
            ha, hb = many_unknown_codes(ra, 30000, 150), many_unknown_codes(rb, 40000, 150)
            n = len(ha["calls"]) + len(hb["calls"])
            # all of A first, then B: B alone stays far below any process-wide limit, B after A does not
            fresh.append({"hists": [ha, hb], "order": [0] * len(ha["calls"]) + [1] * len(hb["calls"]), "plain": True, "fresh": True})
        return fresh + [
            {"hists": [a, b], "order": [0, 1, 0, 1], "plain": False},
            {"hists": [a, b], "order": [1, 0, 1, 0], "plain": False},
            {"hists": [dup, a], "order": [0, 1, 0, 1, 0, 0, 0, 0], "plain": False},
            {"hists": [other, a], "order": [0] * 10 + [1, 1], "plain": False},
        ]

    def model_requests(self, c):
        if not c["plain"]:
            return []
        return [[110, h["role"], h["calls"]] for h in c["hists"]]

    def normalize_model(self, c, answers):
        return [a if isinstance(a, str) else [[o, snap[:2]] for o, snap in a] for a in answers]

    def impl_run(self, c):
        inter = run_interleaved(c["hists"], c["order"])
        c["_inter"] = inter
        return inter if c["plain"] else []

    def oracle(self, c, ans):
        if ans and ans[0] == "!timeout":
            return "timeout"
        inter = canon(run_interleaved(c["hists"], c["order"]))
        for i, h in enumerate(c["hists"]):
            # "alone" for the marked cases means alone in the PROCESS: state that only grows (an enum's member map,
            # an intern table) looks the same to an interleaved and an isolated run made one after the other
            alone = run_alone_fresh(h) if c.get("fresh") else canon(run_alone(h["role"], h["calls"]))
            if alone != inter[i]:
                for j, (x, y) in enumerate(zip(alone, inter[i])):
                    if x != y:
                        return f"session {i}: call {j} behaves differently when another session's calls are interleaved (alone {str(x)[:120]} / interleaved {str(y)[:120]})"
                return f"session {i}: transcripts differ in length"
        # registration semantics: a type id (control OID / filter choice / credential choice) can be taken once per
        # session, built-in ids are taken from the start; the class registered first is the one that decodes
        for i, h in enumerate(c["hists"]):
            taken = {}
            for call, (o, snap) in zip(h["calls"], inter[i]):
                if call[0] in (REG_CTL, REG_FILTER, REG_AUTH):
                    name = reg_name(call)
                    key = TYPE_ID[name]
                    if key in taken or key in BUILTIN_IDS:
                        if o != [6, 1]:
                            return f"session {i}: registering {name} for an id that is already taken was not rejected with ValueError: {o}"
                    else:
                        if o != [1]:
                            return f"session {i}: first registration of {name} failed: {o}"
                        taken[key] = name
                elif call[0] == RECV and o[0] == 3:
                    for m in o[1]:
                        for ctl in m[2]:
                            if ctl[0] == "custom":
                                which = CTL_NAMES[ctl[1]]
                                if taken.get(TYPE_ID[which]) != which:
                                    return f"session {i}: decoded custom control class {ctl[1]} which this session never (successfully) registered"
                            elif ctl[0] == 0:
                                oid = bytes.fromhex(ctl[1]["x"])
                                if ("c", oid) in taken:
                                    return f"session {i}: registered control type {taken[('c', oid)]} was decoded as an unknown control"
                        if isinstance(m[1][0], str) and m[1][0] == "search-custom-filter" and taken.get(("f", 1024)) != {"CustomFilter": "filter", "CustomFilter2": "filter2"}.get(m[1][1]):
                            return f"session {i}: decoded custom filter class {m[1][1]} which this session did not register"
                        if isinstance(m[1][0], str) and m[1][0] == "bind-custom-auth" and taken.get(("a", 1024)) != {"CustomAuth": "auth", "CustomAuth2": "auth2"}.get(m[1][1]):
                            return f"session {i}: decoded custom credential class {m[1][1]} which this session did not register"
        return None

    def extra_checks(self, tier, seed, ctx):
        """Registration clause against the Coq registry model (Sess/Registry.v, theorems in Sess/RegistryProofs.v):
        for every session of every custom history, the outcome of each register_* call and the class that decodes each
        custom control / filter / credential received afterwards must be what the model's per-session registry says."""
        from lib import model

        if not ctx["build"].ok:
            return []
        KIND = {"c": 0, "f": 1, "a": 2}

        def rid(key):
            return list(key[1]) if key[0] == "c" else [key[1]]

        jobs, meta = [], []
        for c in ctx["cases"]:
            if c.get("plain") or "_inter" not in c:
                continue
            for i, h in enumerate(c["hists"]):
                ops = []
                for j, call in enumerate(h["calls"]):
                    if call[0] in (REG_CTL, REG_FILTER, REG_AUTH):
                        name = reg_name(call)
                        key = TYPE_ID[name]
                        ops.append([KIND[key[0]], rid(key), U(name)])
                    elif call[0] == RECV:
                        qs = [[0, list(OID_X)], [0, list(OID_Y)], [0, list(msgs.OID_PAGED)], [1, [1024]], [2, [1024]]]
                        jobs.append([150, list(ops), qs])
                        meta.append((c, i, j, "recv"))
                jobs.append([150, list(ops), []])
                meta.append((c, i, None, "outcomes"))
        if not jobs:
            return []
        ans = model.run_batch(jobs)
        out = []
        self.registry_checks = 0
        for (c, i, j, what), a in zip(meta, ans):
            h = c["hists"][i]
            tr = c["_inter"][i]
            bad = None
            if what == "outcomes":
                want = [bool(x) for x in a[0]]
                got = [tr[k][0] == [1] for k, call in enumerate(h["calls"]) if call[0] in (REG_CTL, REG_FILTER, REG_AUTH)]
                rej = [tr[k][0] for k, call in enumerate(h["calls"]) if call[0] in (REG_CTL, REG_FILTER, REG_AUTH)]
                if want != got:
                    bad = f"session {i}: register_* outcomes {rej} differ from the registry model {want}"
                elif any((not w) and o != [6, 1] for w, o in zip(want, rej)):
                    bad = f"session {i}: a refused registration did not raise ValueError: {rej}"
            else:
                o = tr[j][0]
                if o[0] == 3:
                    dec = {"X": a[1][0], "Y": a[1][1], "P": a[1][2]}

                    def cls_of(x):
                        return None if x == [] else "".join(chr(k) for k in x[0])

                    for m in o[1]:
                        for ctl in m[2]:
                            if ctl[0] == "custom":
                                which = CTL_NAMES[ctl[1]]
                                oid_key = {"X": "X", "X2": "X", "Y": "Y", "P": "P"}[which]
                                if cls_of(dec[oid_key]) != which:
                                    bad = f"session {i}: control decoded by class {which}, the registry model says {cls_of(dec[oid_key])!r}"
                            elif ctl[0] == 0:
                                oid = bytes.fromhex(ctl[1]["x"]) if isinstance(ctl[1], dict) else bytes(ctl[1])
                                for kname, koid in (("X", OID_X), ("Y", OID_Y)):
                                    if oid == koid and cls_of(dec[kname]) is not None:
                                        bad = f"session {i}: control {kname} decoded as unknown, the registry model says class {cls_of(dec[kname])!r}"
                        if isinstance(m[1][0], str) and m[1][0] == "search-custom-filter":
                            want_cls = {"CustomFilter": "filter", "CustomFilter2": "filter2"}.get(m[1][1])
                            if cls_of(a[1][3]) != want_cls:
                                bad = f"session {i}: filter decoded by {m[1][1]}, the registry model says {cls_of(a[1][3])!r}"
                        if isinstance(m[1][0], str) and m[1][0] == "bind-custom-auth":
                            want_cls = {"CustomAuth": "auth", "CustomAuth2": "auth2"}.get(m[1][1])
                            if cls_of(a[1][4]) != want_cls:
                                bad = f"session {i}: credential decoded by {m[1][1]}, the registry model says {cls_of(a[1][4])!r}"
            if bad:
                out.append(({k: v for k, v in c.items() if k != "_inter"}, bad))
                if len(out) >= 3:
                    break
            else:
                self.registry_checks += 1
        return out

    def extra_evidence(self, ctx):
        return {"registry_model_comparisons": getattr(self, "registry_checks", 0)}

    def classify(self, c):
        return ("plain" if c["plain"] else "custom") + "-" + "".join("cs"[h["role"]] for h in c["hists"])

    def nontrivial(self, c):
        return all(len(h["calls"]) >= 2 for h in c["hists"])

    def shrink(self, c):
        return []


PROP = C19()
