"""Shared pieces of the filter-text properties (C13, C14, C15)."""
from __future__ import annotations

from lib import msgs, purity
from lib.framework import Timeout, canon, exc_code


def cps(text: str):
    return [ord(c) for c in text]


def parse_impl(text: str):
    """-> [0, filter] | [1, offset, length] | [2, code]   (Extract/DriverMsg.v s_fres)"""
    import sansldap
    from sansldap._filter import FilterSyntaxError

    try:
        # parsed twice, the first result scrambled in between (lib/purity.py): from_string is a function of the text
        return [0, purity.twice(lambda: sansldap.LDAPFilter.from_string(text), msgs.r_filter)]
    except purity.Impure as e:
        return [2, "impure: " + str(e)]
    except Timeout:
        raise
    except FilterSyntaxError as e:
        return [1, int(e.offset), int(e.length)]
    except BaseException as e:  # noqa: BLE001
        if isinstance(e, (KeyboardInterrupt, SystemExit)):
            raise
        return [2, exc_code(e)]


def attrs_of(f):
    """(attribute descriptions, matching rules) in a list-form filter."""
    k = f[0]
    if k in (0, 1):
        a, r = [], []
        for x in f[1]:
            a2, r2 = attrs_of(x)
            a += a2
            r += r2
        return a, r
    if k == 2:
        return attrs_of(f[1])
    if k == 9:
        return list(f[2]), list(f[1])
    return [f[1]], []
