"""Shared pieces for the schema properties (C16, C17)."""
from __future__ import annotations

from lib import purity
from lib.framework import Timeout, exc_code

KINDS = ["object_class", "attribute_type", "dit_content_rule"]
KIND_N = {"ABSTRACT": 0, "STRUCTURAL": 1, "AUXILIARY": 2}
USAGE_N = {"userApplications": 0, "directoryOperation": 1, "distributedOperation": 2, "dSAOperation": 3}
PARSE_CMD = {"object_class": 300, "attribute_type": 301, "dit_content_rule": 302}
CHAIN_CMD = {"object_class": 310, "attribute_type": 311, "dit_content_rule": 312}


def U(s):
    return [ord(c) for c in s]


def UL(l):
    return [U(x) for x in l]


def opt(v):
    return [] if v is None else [v]


def ext_l(d):
    return [[U(k), UL(v)] for k, v in d.items()]


def to_list(kind, v):
    """dict value -> list form of Extract/DriverMsg.v (s_oc / s_at / s_dcr)."""
    head = [U(v["oid"]), UL(v["names"]), opt(None if v["description"] is None else U(v["description"])), bool(v["obsolete"])]
    if kind == "object_class":
        return head + [UL(v["super_types"]), KIND_N[v["kind"]], UL(v["must"]), UL(v["may"]), ext_l(v["extensions"])]
    if kind == "attribute_type":
        o = lambda x: opt(None if x is None else U(x))  # noqa: E731
        return head + [o(v["super_type"]), o(v["equality"]), o(v["ordering"]), o(v["substrings"]), o(v["syntax"]),
                       opt(v["syntax_length"]), bool(v["single_value"]), bool(v["collective"]), bool(v["no_user_modification"]),
                       USAGE_N[v["usage"]], ext_l(v["extensions"])]
    return head + [UL(v["aux"]), UL(v["must"]), UL(v["may"]), UL(v["never"]), ext_l(v["extensions"])]


def cls_of(kind):
    from sansldap import schema

    return {"object_class": schema.ObjectClassDescription, "attribute_type": schema.AttributeTypeDescription,
            "dit_content_rule": schema.DITContentRuleDescription}[kind]


def to_obj(kind, v):
    from sansldap import schema

    kw = dict(oid=v["oid"], names=list(v["names"]), description=v["description"], obsolete=v["obsolete"],
              extensions={k: list(x) for k, x in v["extensions"].items()})
    if kind == "object_class":
        return schema.ObjectClassDescription(super_types=list(v["super_types"]), kind=schema.ObjectClassKind(v["kind"]),
                                             must=list(v["must"]), may=list(v["may"]), **kw)
    if kind == "attribute_type":
        return schema.AttributeTypeDescription(super_type=v["super_type"], equality=v["equality"], ordering=v["ordering"],
                                               substrings=v["substrings"], syntax=v["syntax"], syntax_length=v["syntax_length"],
                                               single_value=v["single_value"], collective=v["collective"],
                                               no_user_modification=v["no_user_modification"],
                                               usage=schema.AttributeTypeUsage(v["usage"]), **kw)
    return schema.DITContentRuleDescription(aux=list(v["aux"]), must=list(v["must"]), may=list(v["may"]), never=list(v["never"]), **kw)


def from_obj(kind, o):
    """library object -> dict value (through its public fields)."""
    v = dict(oid=o.oid, names=list(o.names), description=o.description, obsolete=bool(o.obsolete),
             extensions={k: list(x) for k, x in o.extensions.items()})
    if kind == "object_class":
        v.update(super_types=list(o.super_types), kind=o.kind.value, must=list(o.must), may=list(o.may))
    elif kind == "attribute_type":
        v.update(super_type=o.super_type, equality=o.equality, ordering=o.ordering, substrings=o.substrings, syntax=o.syntax,
                 syntax_length=o.syntax_length, single_value=bool(o.single_value), collective=bool(o.collective),
                 no_user_modification=bool(o.no_user_modification), usage=o.usage.value)
    else:
        v.update(aux=list(o.aux), must=list(o.must), may=list(o.may), never=list(o.never))
    return v


def canon_dict_order(l):
    """extensions are a dict: compare as sorted list of pairs."""
    l = list(l)
    l[-1] = sorted(l[-1], key=lambda kv: kv[0])
    return l


def parse_impl(kind, text):
    """-> [0, list form] | [1, code]"""
    try:
        # parsed twice, the first result scrambled in between (lib/purity.py)
        return [0, purity.twice(lambda: cls_of(kind).from_string(text), lambda o: to_list(kind, from_obj(kind, o)))]
    except purity.Impure as e:
        return [1, "impure: " + str(e)]
    except Timeout:
        raise
    except BaseException as e:  # noqa: BLE001
        if isinstance(e, (KeyboardInterrupt, SystemExit)):
            raise
        return [1, exc_code(e)]


def render_impl(kind, v):
    """str() of the description with value v.  Half of the time (chosen by the value) the object is first built with
    its list and dict fields empty, rendered once, and then completed IN PLACE to v - the way an application builds a
    definition incrementally: the text must be that of the value the object has when str() is called."""
    o = to_obj(kind, v)
    lists = [f for f in ("names", "super_types", "must", "may", "aux", "never") if isinstance(getattr(o, f, None), list)]
    if (len(v["oid"]) + len(v["names"]) + len(v["extensions"])) % 2 == 0:
        full = {f: list(getattr(o, f)) for f in lists}
        ext = dict(o.extensions)
        for f in lists:
            del getattr(o, f)[:]
        o.extensions.clear()
        try:
            str(o)
        except Exception:  # noqa: BLE001
            pass
        for f in lists:
            getattr(o, f).extend(full[f])
        o.extensions.update(ext)
    return str(o)
