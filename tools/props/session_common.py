"""Base class for the properties decided on session histories."""
from __future__ import annotations

from lib import msgs, sessions
from lib.framework import Prop
from lib.sessions import (C_BIND, C_EXT, C_SEARCH, CALL_OPNUM, CLIENT, DRAIN, RECV, S_BINDRESP, S_DONE, S_ENTRY,
                          S_EXTRESP, S_REF, SEND_CALLS, SERVER, UNBIND)

BEFORE_OPEN, BINDING, OPENED, CLOSED = 0, 1, 2, 3


def X(v):
    return bytes.fromhex(v["x"]) if isinstance(v, dict) else v


class SessionProp(Prop):
    binary_cases = True
    quick_n = 1500
    thorough_n = 40000
    gen_role = None

    def corpus(self):
        return sessions.boundary_histories(self.gen_role)

    def generate(self, rng, n, tier):
        out = []
        for _ in range(n):
            out.append(sessions.gen_history(rng, role=self.gen_role))
        return out

    def model_requests(self, c):
        return [[110, c["role"], c["calls"]]]

    def normalize_model(self, c, answers):
        a = answers[0]
        if isinstance(a, str):
            return [a]
        return [[[o, snap[:2]] for o, snap in a]]

    def impl_run(self, c):
        return [sessions.run_history(c["role"], c["calls"])]

    def classify(self, c):
        return ("client" if c["role"] == 0 else "server") + f"-len{min(len(c['calls']) // 4 * 4, 12)}"

    def nontrivial(self, c):
        return len(c["calls"]) >= 3

    def shrink(self, c):
        calls, meta = c["calls"], c.get("meta") or [None] * len(c["calls"])
        for i in range(len(calls) - 1, -1, -1):
            yield {**c, "calls": calls[:i] + calls[i + 1 :], "meta": meta[:i] + meta[i + 1 :]}
        if len(calls) > 1:
            yield {**c, "calls": calls[:-1], "meta": meta[:-1]}

    # iterate over (index, call, outcome, state_before, out_before, state_after, out_after)
    @staticmethod
    def steps(c, trace):
        st, out = BEFORE_OPEN, b""
        for i, (call, (o, snap)) in enumerate(zip(c["calls"], trace)):
            st2, out2 = snap[0], X(snap[1])
            yield i, call, o, st, out, st2, out2
            st, out = st2, out2
