"""Base class for the properties decided on session histories."""
from __future__ import annotations

from lib import msgs, sessions
from lib.framework import Prop
from lib.sessions import (C_BIND, C_EXT, C_SEARCH, CALL_OPNUM, CLIENT, DRAIN, RECV, S_BINDRESP, S_DONE, S_ENTRY,
                          S_EXTRESP, S_REF, SEND_CALLS, SERVER, UNBIND)

BEFORE_OPEN, BINDING, OPENED, CLOSED = 0, 1, 2, 3


def X(v):
    return bytes.fromhex(v["x"]) if isinstance(v, dict) else v


class SessionProp(Prop):
    binary_cases = True
    quick_n = 1500
    thorough_n = 40000
    gen_role = None
    unenc = 0.0     # share of send calls with an unencodable text argument (properties that opt in)

    def corpus(self):
        return sessions.boundary_histories(self.gen_role)

    def generate(self, rng, n, tier):
        out = []
        for _ in range(n):
            out.append(sessions.gen_history(rng, role=self.gen_role, unenc=self.unenc))
        return out

    def model_requests(self, c):
        # calls with an unencodable argument are not put to the model (its texts are octet lists that always have a
        # UTF-8 reading): the expected behaviour is that such a call changes nothing, see normalize_model
        skip = set(sessions.unenc_indices(c))
        return [[110, c["role"], [x for i, x in enumerate(c["calls"]) if i not in skip]]]

    def normalize_model(self, c, answers):
        a = answers[0]
        if isinstance(a, str):
            return [a]
        rows = [[o, snap[:2]] for o, snap in a]
        skip = set(sessions.unenc_indices(c))
        if skip:
            out, prev, it = [], [0, b""], iter(rows)
            seen = c.get("_unenc_outcomes") or {}
            for i in range(len(c["calls"])):
                if i in skip:
                    # refused by a state gate (LDAPError) or by the encoder (its own error): either way refused,
                    # and nothing may have changed; an accepted call shows up as a difference
                    o = seen.get(i)
                    o = o if (o == [4] or (o and o[0] == 6)) else list(sessions.REFUSED_UNENC)
                    out.append([o, list(prev)])
                else:
                    r = next(it)
                    out.append(r)
                    prev = r[1]
            rows = out
        return [rows]

    def impl_run(self, c):
        t = sessions.run_history(c["role"], c["calls"])
        c["_unenc_outcomes"] = {i: t[i][0] for i in sessions.unenc_indices(c)}
        return [t]

    def classify(self, c):
        return ("client" if c["role"] == 0 else "server") + f"-len{min(len(c['calls']) // 4 * 4, 12)}"

    def nontrivial(self, c):
        return len(c["calls"]) >= 3

    def shrink(self, c):
        calls, meta = c["calls"], c.get("meta") or [None] * len(c["calls"])
        for i in range(len(calls) - 1, -1, -1):
            yield {**c, "calls": calls[:i] + calls[i + 1 :], "meta": meta[:i] + meta[i + 1 :]}
        if len(calls) > 1:
            yield {**c, "calls": calls[:-1], "meta": meta[:-1]}

    # iterate over (index, call, outcome, state_before, out_before, state_after, out_after)
    @staticmethod
    def steps(c, trace):
        st, out = BEFORE_OPEN, b""
        for i, (call, (o, snap)) in enumerate(zip(c["calls"], trace)):
            st2, out2 = snap[0], X(snap[1])
            yield i, call, o, st, out, st2, out2
            st, out = st2, out2
