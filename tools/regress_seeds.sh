#!/bin/bash
# tools/regress_seeds.sh : every seeded change must be reported by the quick check of its property
cd /verif
for d in seeded/*/; do
  n=$(basename $d); id=${n:0:3}
  if grep -q '"obsolete"' $d/meta.json 2>/dev/null; then echo "$n -> skipped (obsolete, see meta.json)"; continue; fi
  r=$(tools/try_patch.sh /verif/seeded/$n/patch.diff $id 2>&1 | grep -E "^(VIOLATION|OK)" | head -1 | cut -c1-90)
  echo "$n -> $r"
done
