"""Every regular expression the library uses -> Coq `rx` terms (part of tools/translate.py).

The pattern text and flags are taken from the live module objects (compiled patterns) or, for
patterns passed inline to re.sub/re.match, from the call site's argument expression evaluated in
the module's namespace.  They are parsed with CPython's own parser (re._parser), i.e. we
translate the tree the engine executes.  Fail-closed: any construct outside the supported subset
(literals, classes with ranges/negation, '.', groups, branches, greedy repeats, anchors only at
the two ends) raises TranslateError."""
from __future__ import annotations

import ast
import inspect
import re
import re._constants as sc
import re._parser as sp


class TranslateError(Exception):
    pass


MAXREPEAT = sc.MAXREPEAT


def rng_lit(lo, hi):
    return f"({lo}%N, {hi}%N)"


class Conv:
    def __init__(self, name):
        self.name = name

    def seq(self, items):
        items = list(items)
        out = None
        for it in reversed(items):
            r = self.node(it)
            out = r if out is None else f"(Cat {r} {out})"
        return out if out is not None else "Eps"

    def cls(self, neg, ranges):
        return f"(Chr {'true' if neg else 'false'} [{'; '.join(rng_lit(a, b) for a, b in ranges)}])"

    def node(self, it):
        op, av = it
        if op is sc.LITERAL:
            return self.cls(False, [(av, av)])
        if op is sc.NOT_LITERAL:
            return self.cls(True, [(av, av)])
        if op is sc.ANY:
            return self.cls(True, [(10, 10)])
        if op is sc.IN:
            neg = False
            ranges = []
            for o2, a2 in av:
                if o2 is sc.NEGATE:
                    neg = True
                elif o2 is sc.LITERAL:
                    ranges.append((a2, a2))
                elif o2 is sc.RANGE:
                    ranges.append((a2[0], a2[1]))
                else:
                    raise TranslateError(f"{self.name}: unsupported class item {o2}")
            return self.cls(neg, ranges)
        if op is sc.BRANCH:
            _, alts = av
            out = None
            for alt in reversed(alts):
                r = self.seq(alt)
                out = r if out is None else f"(Alt {r} {out})"
            return out
        if op is sc.SUBPATTERN:
            group, add_flags, del_flags, p = av
            if add_flags or del_flags:
                raise TranslateError(f"{self.name}: inline flags")
            r = self.seq(p)
            if group is None:
                return r
            return f"(Group {group}%nat {r})"
        if op is sc.MAX_REPEAT:
            lo, hi, p = av
            r = self.seq(p)
            if lo > 8 or (hi is not MAXREPEAT and hi > 8):
                raise TranslateError(f"{self.name}: repeat bound too large")
            out = None
            if hi is MAXREPEAT:
                out = f"(Star {r})"
            else:
                # r{lo,hi}: optional copies nested to keep greedy priority
                out = "Eps"
                for _ in range(hi - lo):
                    out = f"(Alt (Cat {r} {out}) Eps)" if out != "Eps" else f"(Alt {r} Eps)"
            for _ in range(lo):
                out = f"(Cat {r} {out})" if out != "Eps" else r
            return out
        if op is sc.AT:
            raise TranslateError(f"{self.name}: anchor {av} not at an end of the pattern")
        raise TranslateError(f"{self.name}: unsupported regex construct {op}")


def translate_pattern(name, pattern, flags):
    allowed = re.VERBOSE | re.UNICODE
    extra = flags & ~allowed
    if extra:
        raise TranslateError(f"{name}: unsupported flags {extra!r}")
    tree = sp.parse(pattern, flags & re.VERBOSE)
    items = list(tree)
    begin = False
    end = "NoEnd"
    if items and items[0][0] is sc.AT and items[0][1] is sc.AT_BEGINNING:
        begin = True
        items = items[1:]
    if items and items[-1][0] is sc.AT:
        if items[-1][1] is sc.AT_END:
            end = "EndDollar"
        elif items[-1][1] is sc.AT_END_STRING:
            end = "EndZ"
        else:
            raise TranslateError(f"{name}: unsupported anchor {items[-1][1]}")
        items = items[:-1]
    body = Conv(name).seq(items)
    groups = dict(tree.state.groupdict)
    return body, begin, end, groups, tree.state.groups - 1


def inline_patterns(module, func_name, call_names=("sub", "match")):
    """(callee, pattern string) for every re.<callee>(<expr>, ...) in module.<func_name>."""
    src = inspect.getsource(module)
    tree = ast.parse(src)
    out = []
    for node in ast.walk(tree):
        if isinstance(node, ast.FunctionDef) and node.name == func_name:
            for call in ast.walk(node):
                if (
                    isinstance(call, ast.Call)
                    and isinstance(call.func, ast.Attribute)
                    and isinstance(call.func.value, ast.Name)
                    and call.func.value.id == "re"
                    and call.func.attr in call_names
                ):
                    expr = ast.Expression(call.args[0])
                    ast.fix_missing_locations(expr)
                    try:
                        val = eval(compile(expr, "<pattern>", "eval"), dict(module.__dict__))  # noqa: S307
                    except Exception as e:  # noqa: BLE001
                        raise TranslateError(f"{func_name}: cannot evaluate inline pattern: {e}") from None
                    if isinstance(val, re.Pattern):
                        out.append((call.func.attr, val.pattern, val.flags))
                    else:
                        out.append((call.func.attr, val, 0))
    return out


FAILURES = []  # (coq name, reason) of patterns that could not be translated in this run


def emit_placeholder(out, coq_name, want_groups, reason):
    """A pattern the translator does not understand is replaced by the pattern that matches nothing: the development
    still builds for the properties that do not use it, while every proof or correspondence about this pattern breaks."""
    FAILURES.append((coq_name, str(reason)))
    out.append(f"(* TRANSLATION FAILED (fail closed for this pattern only): {str(reason).replace('*)', '* )')} *)")
    out.append(f"Definition {coq_name} : rx := Nul.")
    out.append(f"Definition {coq_name}_end : end_anchor := NoEnd.")
    out.append(f"Definition {coq_name}_ngroups : nat := 0%nat.")
    for g in want_groups:
        out.append(f"Definition {coq_name}_g_{g} : nat := 0%nat.")


def emit_one(out, coq_name, pattern, flags, want_groups=()):
    tmp = []
    try:
        _emit_one(tmp, coq_name, pattern, flags, want_groups)
    except TranslateError as e:
        emit_placeholder(out, coq_name, want_groups, e)
        return
    except Exception as e:  # noqa: BLE001  (errors of re._parser on patterns it rejects, etc.)
        emit_placeholder(out, coq_name, want_groups, f"{type(e).__name__}: {e}")
        return
    out.extend(tmp)


def _emit_one(out, coq_name, pattern, flags, want_groups=()):
    if pattern is None:
        raise TranslateError("not a compiled pattern")
    if isinstance(pattern, bytes):
        pattern_s = pattern.decode("latin-1")
    else:
        pattern_s = pattern
    body, begin, end, groups, ngroups = translate_pattern(coq_name, pattern_s, flags)
    out.append(f"Definition {coq_name} : rx := {body}.")
    out.append(f"Definition {coq_name}_end : end_anchor := {end}.")
    out.append(f"Definition {coq_name}_ngroups : nat := {ngroups}%nat.")
    for g in want_groups:
        if g not in groups:
            raise TranslateError(f"{coq_name}: named group {g!r} missing")
        out.append(f"Definition {coq_name}_g_{g} : nat := {groups[g]}%nat.")


def emit_regexes(out):
    import sansldap._filter as fl
    import sansldap.schema as sch

    out.append("From SV Require Import Rx.Syntax.")
    out.append("")

    class _Missing:
        def __init__(self, why):
            self.pattern, self.flags, self.why = None, 0, why

    def compiled(mod, attr):
        p = getattr(mod, attr, None)
        if not isinstance(p, re.Pattern):
            return _Missing(f"{mod.__name__}.{attr} is not a compiled pattern")
        return p

    # how the patterns are applied is part of what the model assumes: <pattern>.match(text).  If that changes, the
    # pattern is treated as untranslatable (for that pattern only).
    def applied_with_match(what, src, needle):
        return None if needle in src else f"{what} is no longer applied with {needle}"

    try:
        src = inspect.getsource(fl._unpack_simple_filter) + inspect.getsource(fl._unpack_filter_extensible_header)
        why = applied_with_match("_ATTRIBUTE_PATTERN", src, "_ATTRIBUTE_PATTERN.match(")
    except Exception as e:  # noqa: BLE001
        why = f"{type(e).__name__}: {e}"
    p = compiled(fl, "_ATTRIBUTE_PATTERN")
    if why:
        emit_placeholder(out, "rx_attribute", (), why)
    else:
        emit_one(out, "rx_attribute", p.pattern, p.flags)
    p = compiled(fl, "_HEX_PATTERN")
    emit_one(out, "rx_hex", p.pattern, p.flags)
    p = compiled(fl, "_LDAP_ESCAPE_PATTERN")
    emit_one(out, "rx_ldap_escape", p.pattern, p.flags & ~re.UNICODE)
    p = compiled(fl, "_STRING_ESCAPE_PATTERN")
    emit_one(out, "rx_string_escape", p.pattern, p.flags & ~re.UNICODE)

    common = ["oid", "name", "desc", "obsolete", "extensions"]
    for coq_name, attr, cls_name, groups in (
        ("rx_object_class", "OBJECT_CLASS_DESCRIPTION", "ObjectClassDescription", common + ["sup", "kind", "must", "may"]),
        ("rx_attribute_type", "ATTRIBUTE_TYPE_DESCRIPTION", "AttributeTypeDescription",
         common + ["sup", "equality", "ordering", "substr", "syntax", "single_value", "collective", "no_user_modification", "usage"]),
        ("rx_dit_content_rule", "DIT_CONTENT_RULE_DESCRIPTION", "DITContentRuleDescription", common + ["aux", "must", "may", "not"]),
    ):
        try:
            why = applied_with_match(f"{cls_name}.from_string", inspect.getsource(getattr(sch, cls_name).from_string), ".match(value)")
        except Exception as e:  # noqa: BLE001
            why = f"{type(e).__name__}: {e}"
        p = compiled(sch, attr)
        if why:
            emit_placeholder(out, coq_name, groups, why)
        else:
            emit_one(out, coq_name, p.pattern, p.flags, groups)
    p = compiled(sch, "NOIDLEN_MATCH")
    emit_one(out, "rx_noidlen", p.pattern, p.flags, ["value", "len"])

    for coq_name, func in (("rx_qd_escape", "_encode_qdstring"), ("rx_qd_unescape", "_parse_qdstring")):
        try:
            found = inline_patterns(sch, func)
            if len(found) != 1 or found[0][0] != "sub":
                raise TranslateError(f"{func}: expected exactly one re.sub, found {found}")
        except TranslateError as e:
            emit_placeholder(out, coq_name, (), e)
            continue
        emit_one(out, coq_name, found[0][1], found[0][2])


    # CPython's str.isspace() for the code points LDAPFilter.from_string's strip() can remove
    spaces = [cp for cp in range(0x110000) if chr(cp).isspace()]
    out.append("Definition isspace_table : list N := [" + "; ".join(f"{c}%N" for c in spaces) + "].")
