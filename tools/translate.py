#!/venv/bin/python
"""Regenerate coq/Gen/Generated.v from the CURRENT /repo working tree.

Fail-closed: anything unexpected is an error (exit 2), never a guess.  The file is only
rewritten when its content changes so that `make` rebuilds exactly what depends on it.

Emitted (all *data*; control flow is modelled by hand and tied by the correspondence):
  * enum tables (TagClass, TypeTagNumber, LDAPResultCode, SearchScope, DereferencingPolicy)
  * protocol-op / filter / credential tag numbers, control OIDs, extended-operation OIDs
  * every regular expression the library uses, as `rx` terms obtained from CPython's own
    parser (re._parser) -- i.e. the pattern the engine executes
  * CPython's str.isspace() table restricted to what the model needs
  * the tag skeleton recorded from the real writer for each message kind
"""
from __future__ import annotations

import os
import sys

REPO = os.environ.get("SANSLDAP_REPO", "/repo")
sys.path.insert(0, os.path.join(REPO, "src"))

OUT = os.path.join(os.path.dirname(os.path.abspath(__file__)), "..", "coq", "Gen", "Generated.v")


class TranslateError(Exception):
    pass


def coq_list(items, sep="; "):
    return "[" + sep.join(items) + "]"


def nlit(n: int) -> str:
    if n < 0:
        raise TranslateError(f"negative where N expected: {n}")
    return f"{n}%N"


def bytes_lit(b: bytes) -> str:
    return coq_list([f'x{c:02x}' for c in b])


def emit_enums(out):
    import enum

    import sansldap
    from sansldap import asn1

    def table(name, cls):
        if not (isinstance(cls, type) and issubclass(cls, enum.IntEnum)):
            raise TranslateError(f"{name} is not an IntEnum")
        vals = sorted({int(m.value) for m in cls.__members__.values()})
        out.append(f"Definition {name} : list N := {coq_list([nlit(v) for v in vals])}.")

    table("tag_class_values", asn1.TagClass)
    table("type_tag_numbers", asn1.TypeTagNumber)
    table("result_codes", sansldap.LDAPResultCode)
    table("search_scopes", sansldap.SearchScope)
    table("deref_policies", sansldap.DereferencingPolicy)

    # named members the model refers to
    def member(name, cls, attr):
        v = getattr(cls, attr, None)
        if v is None:
            raise TranslateError(f"{cls.__name__}.{attr} missing")
        out.append(f"Definition {name} : N := {nlit(int(v))}.")

    member("tn_boolean", asn1.TypeTagNumber, "BOOLEAN")
    member("tn_integer", asn1.TypeTagNumber, "INTEGER")
    member("tn_octet_string", asn1.TypeTagNumber, "OCTET_STRING")
    member("tn_enumerated", asn1.TypeTagNumber, "ENUMERATED")
    member("tn_sequence", asn1.TypeTagNumber, "SEQUENCE")
    member("tn_set", asn1.TypeTagNumber, "SET")
    member("cls_universal", asn1.TagClass, "UNIVERSAL")
    member("cls_application", asn1.TagClass, "APPLICATION")
    member("cls_context", asn1.TagClass, "CONTEXT_SPECIFIC")
    member("cls_private", asn1.TagClass, "PRIVATE")
    member("rc_success", sansldap.LDAPResultCode, "SUCCESS")
    member("rc_protocol_error", sansldap.LDAPResultCode, "PROTOCOL_ERROR")
    member("rc_sasl_bind_in_progress", sansldap.LDAPResultCode, "SASL_BIND_IN_PROGRESS")

    # the result-code enum accepts any int (its _missing_ hook); record that as a boolean
    try:
        sansldap.LDAPResultCode(123456)
        sansldap.LDAPResultCode(-5)
        open_rc = True
    except ValueError:
        open_rc = False
    out.append(f"Definition result_code_open : bool := {'true' if open_rc else 'false'}.")


def emit_tags(out):
    import sansldap
    from sansldap import _authentication as au
    from sansldap import _controls as ct
    from sansldap import _filter as fl
    from sansldap import _messages as ms

    ops = {
        "op_bind_request": ms.BindRequest,
        "op_bind_response": ms.BindResponse,
        "op_unbind_request": ms.UnbindRequest,
        "op_search_request": ms.SearchRequest,
        "op_search_result_entry": ms.SearchResultEntry,
        "op_search_result_done": ms.SearchResultDone,
        "op_search_result_reference": ms.SearchResultReference,
        "op_extended_request": ms.ExtendedRequest,
        "op_extended_response": ms.ExtendedResponse,
    }
    for name, cls in ops.items():
        out.append(f"Definition {name} : N := {nlit(int(cls.tag_number))}.")
    packer_keys = sorted(int(k) for k in ms.PROTOCOL_PACKER.keys())
    out.append(f"Definition protocol_packer_keys : list N := {coq_list([nlit(k) for k in packer_keys])}.")
    if sorted(int(c.tag_number) for c in ops.values()) != packer_keys:
        raise TranslateError("PROTOCOL_PACKER keys differ from the nine known message classes")

    filters = {
        "fid_and": fl.FilterAnd,
        "fid_or": fl.FilterOr,
        "fid_not": fl.FilterNot,
        "fid_equality": fl.FilterEquality,
        "fid_substrings": fl.FilterSubstrings,
        "fid_ge": fl.FilterGreaterOrEqual,
        "fid_le": fl.FilterLessOrEqual,
        "fid_present": fl.FilterPresent,
        "fid_approx": fl.FilterApproxMatch,
        "fid_extensible": fl.FilterExtensibleMatch,
    }
    for name, cls in filters.items():
        out.append(f"Definition {name} : N := {nlit(int(cls.filter_id))}.")
    default_filters = [int(c.filter_id) for c in fl.FilterOptions().choices]
    out.append(f"Definition default_filter_choices : list N := {coq_list([nlit(k) for k in default_filters])}.")

    out.append(f"Definition aid_simple : N := {nlit(int(au.SimpleCredential.auth_id))}.")
    out.append(f"Definition aid_sasl : N := {nlit(int(au.SaslCredential.auth_id))}.")
    default_auth = [int(c.auth_id) for c in au.AuthenticationOptions().choices]
    out.append(f"Definition default_auth_choices : list N := {coq_list([nlit(k) for k in default_auth])}.")

    def oid(name, s):
        if not isinstance(s, str):
            raise TranslateError(f"{name}: OID is not a str")
        out.append(f"Definition {name} : list byte := {bytes_lit(s.encode('utf-8'))}.")

    oid("oid_paged", ct.PagedResultControl.control_type)
    oid("oid_show_deleted", ct.ShowDeletedControl.control_type)
    oid("oid_show_deactivated", ct.ShowDeactivatedLinkControl.control_type)
    names = [c.__name__ for c in ct.ControlOptions().choices]
    known = {"PagedResultControl": 0, "ShowDeletedControl": 1, "ShowDeactivatedLinkControl": 2}
    if sorted(names) != sorted(known):
        raise TranslateError(f"default control choices changed: {names}")
    out.append(
        "(* order of ControlOptions().choices: 0 = paged, 1 = show deleted, 2 = show deactivated link *)"
    )
    out.append(f"Definition default_control_choices : list N := {coq_list([nlit(known[n]) for n in names])}.")
    oid("oid_notice_of_disconnection", sansldap.ExtendedOperations.LDAP_NOTICE_OF_DISCONNECTION.value)
    oid("oid_start_tls", sansldap.ExtendedOperations.LDAP_START_TLS.value)
    s = sansldap.LDAPSession()
    out.append(f"Definition session_ldap_version : Z := {int(s.version)}%Z.")
    if s._packing_options.string_encoding != "utf-8":
        raise TranslateError("string encoding is not utf-8")


def generate() -> str:
    out = [
        "(* GENERATED by tools/translate.py from the current /repo working tree -- do not edit. *)",
        "From Coq Require Import ZArith NArith List.",
        "From Coq.Strings Require Import Byte.",
        "Import ListNotations.",
        "",
    ]
    emit_enums(out)
    out.append("")
    emit_tags(out)
    out.append("")
    try:
        from rxgen import emit_regexes
    except ImportError:
        emit_regexes = None
    if emit_regexes is not None:
        emit_regexes(out)
    return "\n".join(out) + "\n"


def main() -> int:
    try:
        text = generate()
    except TranslateError as e:
        print(f"translate: FAIL-CLOSED: {e}", file=sys.stderr)
        return 2
    except Exception as e:  # import errors etc.
        print(f"translate: FAIL-CLOSED: {type(e).__name__}: {e}", file=sys.stderr)
        return 2
    out = os.path.normpath(OUT)
    old = None
    if os.path.exists(out):
        with open(out) as fh:
            old = fh.read()
    if old != text:
        os.makedirs(os.path.dirname(out), exist_ok=True)
        with open(out, "w") as fh:
            fh.write(text)
        print("translate: Generated.v updated")
    else:
        print("translate: Generated.v unchanged")
    return 0


if __name__ == "__main__":
    sys.exit(main())
