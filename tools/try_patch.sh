#!/bin/bash
# tools/try_patch.sh <patch.diff> <ID> [<ID>...] : apply a patch to /repo, run the quick checks, undo.
# The evidence files are rewritten by every run, so the clean-tree evidence is saved and restored.
patch="$1"; shift
cd /repo || exit 2
git diff --quiet || { echo "/repo not clean"; exit 2; }
git apply "$patch" || { echo "patch does not apply"; exit 2; }
save=$(mktemp -d)
cp -a /verif/evidence/. "$save"/
for id in "$@"; do
  ( cd /verif && timeout 1800 ./check "$id" 2>&1 | grep -E "^(VIOLATION|KNOWN-FINDING|OK)" ; echo "  -> $id rc=${PIPESTATUS[0]}" )
done
git -C /repo checkout -- .
cp -a "$save"/. /verif/evidence/ && rm -rf "$save"
