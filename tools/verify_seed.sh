#!/bin/bash
# tools/verify_seed.sh <ID> : confirm a seeded change in /tmp/seed/<ID> (tests pass, demo fails with it, passes without)
id="$1"; wt=/tmp/seed/$id
cd "$wt" || exit 2
[ -f patch.diff ] && [ -f demo.py ] || { echo "$id: missing patch.diff/demo.py"; exit 2; }
git stash -q -- src 2>/dev/null; git checkout -q -- src 2>/dev/null
git apply --check patch.diff || { echo "$id: patch does not apply to clean tree"; exit 2; }
PYTHONPATH=$wt/src /venv/bin/python demo.py >/dev/null 2>&1; r0=$?
git apply patch.diff
t=$(PYTHONPATH=$wt/src /venv/bin/python -m pytest -q -p no:cacheprovider 2>&1 | tail -1)
PYTHONPATH=$wt/src /venv/bin/python demo.py > /tmp/seed/$id.demo.out 2>&1; r1=$?
git checkout -q -- src
git stash drop -q 2>/dev/null
echo "$id: demo-clean rc=$r0  tests-with-patch: $t  demo-with-patch rc=$r1"
if [ "$r0" = 0 ] && [ "$r1" != 0 ] && echo "$t" | grep -q "413 passed"; then
  mkdir -p /verif/seeded/$id && cp patch.diff demo.py /verif/seeded/$id/ && echo "$id: kept"
else
  echo "$id: NOT confirmed"
fi
