#!/bin/bash
# tools/verify_seed9.sh <NAME> : confirm a ninth-batch seeded change in /tmp/seed10/<NAME>; keep as /verif/seeded/<NAME>
id="$1"; wt=/tmp/seed10/$id/repo; out=/tmp/seed10/$id/out
cd "$wt" || exit 2
[ -f $out/patch.diff ] && [ -f $out/demo.py ] || { echo "$id: missing patch.diff/demo.py"; exit 2; }
git checkout -q -- . 2>/dev/null; git stash list | grep -q . && git stash drop -q
git apply --check $out/patch.diff || { echo "$id: patch does not apply to clean tree"; exit 2; }
PYTHONPATH=$wt/src timeout 300 /venv/bin/python $out/demo.py >/dev/null 2>&1; r0=$?
git apply $out/patch.diff
t=$(PYTHONPATH=$wt/src /venv/bin/python -m pytest -q -p no:cacheprovider 2>&1 | tail -1)
PYTHONPATH=$wt/src timeout 300 /venv/bin/python $out/demo.py > /tmp/seed10/$id.demo.out 2>&1; r1=$?
git checkout -q -- .
echo "$id: demo-clean rc=$r0  tests-with-patch: $t  demo-with-patch rc=$r1"
if [ "$r0" = 0 ] && [ "$r1" != 0 ] && echo "$t" | grep -q "413 passed"; then
  mkdir -p /verif/seeded/${id} && cp $out/patch.diff $out/demo.py /verif/seeded/${id}/ && cp $out/NOTE.md /verif/seeded/${id}/ 2>/dev/null; echo "$id: kept"
else
  echo "$id: NOT confirmed"
fi
