#!/bin/bash
# tools/verify_seed2.sh <ID> : confirm a second-round seeded change in /tmp/seed2/<ID>; keep as /verif/seeded/<ID>b
id="$1"; wt=/tmp/seed2/$id
cd "$wt" || exit 2
[ -f patch.diff ] && [ -f demo.py ] || { echo "$id: missing patch.diff/demo.py"; exit 2; }
git checkout -q -- src 2>/dev/null
git apply --check patch.diff || { echo "$id: patch does not apply to clean tree"; exit 2; }
PYTHONPATH=$wt/src timeout 300 /venv/bin/python demo.py >/dev/null 2>&1; r0=$?
git apply patch.diff
t=$(PYTHONPATH=$wt/src /venv/bin/python -m pytest -q -p no:cacheprovider 2>&1 | tail -1)
PYTHONPATH=$wt/src timeout 300 /venv/bin/python demo.py > /tmp/seed2/$id.demo.out 2>&1; r1=$?
git checkout -q -- src
echo "$id: demo-clean rc=$r0  tests-with-patch: $t  demo-with-patch rc=$r1"
if [ "$r0" = 0 ] && [ "$r1" != 0 ] && echo "$t" | grep -q "413 passed"; then
  mkdir -p /verif/seeded/${id}b && cp patch.diff demo.py /verif/seeded/${id}b/ && cp NOTE.md /verif/seeded/${id}b/ 2>/dev/null; echo "$id: kept"
else
  echo "$id: NOT confirmed"
fi
